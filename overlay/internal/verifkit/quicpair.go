//go:build verif

package verifkit

import (
	"context"
	"fmt"
	"io"
	"log/slog"
	"net"
	"sync"
	"time"

	"github.com/quic-go/quic-go"
	"github.com/sheerbytes/sheerbytes/internal/quictransport"
	"github.com/sheerbytes/sheerbytes/internal/transfer"
	"github.com/sheerbytes/sheerbytes/internal/transferquic"
)

// Quiet is a logger that discards everything.
var Quiet = slog.New(slog.NewTextHandler(io.Discard, nil))

// QUICConfig returns the QUIC config used by the harness: the repository's
// defaults with a short idle timeout so that silent loss is noticed quickly.
func QUICConfig(server bool, idle time.Duration) *quic.Config {
	var c *quic.Config
	if server {
		c = quictransport.DefaultServerQUICConfig()
	} else {
		c = quictransport.DefaultClientQUICConfig()
	}
	c.InitialConnectionReceiveWindow = 8 << 20
	c.MaxConnectionReceiveWindow = 8 << 20
	c.InitialStreamReceiveWindow = 4 << 20
	c.MaxStreamReceiveWindow = 4 << 20
	if idle > 0 {
		// keep-alives stay on (as in production) so that a live but silent peer
		// keeps the connection: a stall stays a stall, only real loss times out
		c.MaxIdleTimeout = idle
		c.KeepAlivePeriod = idle / 3
	}
	return c
}

// Listener is a loopback QUIC listener (the repository's own Listen wrapper)
// from which connection pairs are drawn.
type Listener struct {
	mu   sync.Mutex
	udp  *net.UDPConn
	ql   Acceptor
	tr   *transferquic.QUICTransport
	idle time.Duration
}

func NewListener(idle time.Duration) (*Listener, error) {
	udp, err := net.ListenUDP("udp4", &net.UDPAddr{IP: net.IPv4(127, 0, 0, 1)})
	if err != nil {
		return nil, err
	}
	ql, tr, err := ListenApp(udp, QUICConfig(true, idle))
	if err != nil {
		udp.Close()
		return nil, err
	}
	return &Listener{udp: udp, ql: ql, tr: tr, idle: idle}, nil
}

// Acceptor is what the harness needs from the listener the repository's
// wrapper returns (quic-go's Listener and EarlyListener both satisfy it).
type Acceptor interface {
	Accept(context.Context) (*quic.Conn, error)
	Close() error
	Addr() net.Addr
}

// ListenApp creates the listener the way the receiver application does
// (quictransport.ListenWithTransport on a quic.Transport over the socket) and
// wraps it with transferquic.NewListener. The static type of the listener is
// whatever the repository's wrapper returns, so the harness keeps building
// when that type changes. Use either the Acceptor (raw connections) or the
// transport (wrapped connections), not both, on one listener.
func ListenApp(udp net.PacketConn, cfg *quic.Config) (Acceptor, *transferquic.QUICTransport, error) {
	ql, err := quictransport.ListenWithTransport(context.Background(), &quic.Transport{Conn: udp}, Quiet, cfg)
	if err != nil {
		return nil, nil, err
	}
	return ql, transferquic.NewListener(ql, Quiet), nil
}

func (l *Listener) Addr() *net.UDPAddr { return l.udp.LocalAddr().(*net.UDPAddr) }

func (l *Listener) Close() {
	_ = l.tr.Close()
	_ = l.udp.Close()
}

// Pair is one established QUIC connection seen from both ends.
type Pair struct {
	Dial      transfer.Conn // sender side in the app
	Accept    transfer.Conn // receiver side in the app
	RawDial   *quic.Conn
	RawAccept *quic.Conn
	dialUDP   *net.UDPConn
	closeOnce sync.Once
}

// NewPair dials the listener and accepts the connection.
func (l *Listener) NewPair(ctx context.Context) (*Pair, error) {
	l.mu.Lock()
	defer l.mu.Unlock()
	udp, err := net.ListenUDP("udp4", &net.UDPAddr{IP: net.IPv4(127, 0, 0, 1)})
	if err != nil {
		return nil, err
	}
	cctx, cancel := context.WithTimeout(ctx, 10*time.Second)
	defer cancel()
	type acc struct {
		c   transfer.Conn
		raw *quic.Conn
		err error
	}
	ach := make(chan acc, 1)
	go func() {
		// accept the raw connection (so that the harness can close it with an
		// error code) and wrap it in the repository's QUICConn
		raw, err := l.ql.Accept(cctx)
		if err != nil {
			ach <- acc{nil, nil, err}
			return
		}
		c, err := transferquic.NewDialer(raw, Quiet).Dial(cctx, "peer")
		ach <- acc{c, raw, err}
	}()
	raw, err := quictransport.DialWithConfig(cctx, udp, l.Addr(), Quiet, QUICConfig(false, l.idle))
	if err != nil {
		udp.Close()
		cancel()
		<-ach
		return nil, fmt.Errorf("dial: %w", err)
	}
	dc, err := transferquic.NewDialer(raw, Quiet).Dial(cctx, "peer")
	if err != nil {
		udp.Close()
		return nil, err
	}
	a := <-ach
	if a.err != nil {
		_ = raw.CloseWithError(1, "harness")
		udp.Close()
		return nil, fmt.Errorf("accept: %w", a.err)
	}
	return &Pair{Dial: dc, Accept: a.c, RawDial: raw, RawAccept: a.raw, dialUDP: udp}, nil
}

// KillDialSocket closes the dialer's UDP socket: the peer sees silence.
func (p *Pair) KillDialSocket() { _ = p.dialUDP.Close() }

// Close closes both ends and the dialer's socket.
func (p *Pair) Close() {
	p.closeOnce.Do(func() {
		_ = p.Dial.Close()
		_ = p.Accept.Close()
		// give quic-go a moment to send CONNECTION_CLOSE before the socket goes
		go func(u *net.UDPConn) {
			time.Sleep(50 * time.Millisecond)
			_ = u.Close()
		}(p.dialUDP)
	})
}

// ListenerPool hands out listeners to workers.
type ListenerPool struct {
	ch chan *Listener
	all []*Listener
}

func NewListenerPool(n int, idle time.Duration) (*ListenerPool, error) {
	p := &ListenerPool{ch: make(chan *Listener, n)}
	var mu sync.Mutex
	var firstErr error
	var wg sync.WaitGroup
	for i := 0; i < n; i++ {
		wg.Add(1)
		go func() {
			defer wg.Done()
			l, err := NewListener(idle)
			mu.Lock()
			defer mu.Unlock()
			if err != nil {
				if firstErr == nil {
					firstErr = err
				}
				return
			}
			p.all = append(p.all, l)
			p.ch <- l
		}()
	}
	wg.Wait()
	if firstErr != nil {
		return nil, firstErr
	}
	return p, nil
}

func (p *ListenerPool) Get() *Listener  { return <-p.ch }
func (p *ListenerPool) Put(l *Listener) { p.ch <- l }
func (p *ListenerPool) Close() {
	for _, l := range p.all {
		l.Close()
	}
}
