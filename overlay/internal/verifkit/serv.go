//go:build verif

package verifkit

// serv.go: driver for the real thruserv binary and a small recording
// WebSocket test client (gorilla/websocket) used by the server-side checks
// (C10, C16). Nothing here decides a verdict.

import (
	"bytes"
	"encoding/json"
	"errors"
	"fmt"
	"io"
	"net"
	"net/http"
	"net/url"
	"os"
	"os/exec"
	"strconv"
	"strings"
	"sync"
	"syscall"
	"time"

	"github.com/gorilla/websocket"
	"github.com/sheerbytes/sheerbytes/pkg/protocol"
)

// ---------------------------------------------------------------------------
// monotonic clock shared by every recorder of this process

var monoEpoch = time.Now()

// MonoNow is the monotonic time since process start; all timestamps of the
// WS client and of the harness send logs use it, so they are comparable.
func MonoNow() time.Duration { return time.Since(monoEpoch) }

// ---------------------------------------------------------------------------
// thruserv driver

// Serv is one running thruserv process.
type Serv struct {
	Port    int
	URL     string // http://127.0.0.1:<port>
	Flags   []string
	LogPath string
	Pid     int

	cmd     *exec.Cmd
	logf    *os.File
	exited  chan struct{}
	exitMu  sync.Mutex
	exit    error
	stopMu  sync.Mutex
	stopped bool
}

// FreePort asks the kernel for a currently free TCP port. thruserv binds
// ":<port>" (all interfaces), so the probe listens on all interfaces too.
func FreePort() (int, error) {
	l, err := net.Listen("tcp", ":0")
	if err != nil {
		l, err = net.Listen("tcp", "127.0.0.1:0")
		if err != nil {
			return 0, err
		}
	}
	port := l.Addr().(*net.TCPAddr).Port
	_ = l.Close()
	return port, nil
}

// ErrServStart marks an environment problem while starting thruserv (never a verdict).
var ErrServStart = errors.New("thruserv did not start")

// StartServ starts bin (the real thruserv) with "--port <free port>" + flags,
// output captured to logPath, and waits until GET /health answers {"ok":true}
// from *this* process (a process that exits early, e.g. on a port collision,
// triggers a retry on another port). flags must not contain --port.
func StartServ(bin string, flags []string, logPath string) (*Serv, error) {
	var lastErr error
	for attempt := 0; attempt < 6; attempt++ {
		port, err := FreePort()
		if err != nil {
			lastErr = err
			continue
		}
		s, err := startServOn(bin, port, flags, logPath)
		if err == nil {
			return s, nil
		}
		lastErr = err
	}
	return nil, fmt.Errorf("%w: %v", ErrServStart, lastErr)
}

func startServOn(bin string, port int, flags []string, logPath string) (*Serv, error) {
	lf, err := os.OpenFile(logPath, os.O_CREATE|os.O_WRONLY|os.O_APPEND, 0644)
	if err != nil {
		return nil, err
	}
	args := append([]string{"--port", strconv.Itoa(port)}, flags...)
	cmd := exec.Command(bin, args...)
	cmd.Stdout = lf
	cmd.Stderr = lf
	cmd.Stdin = nil
	cmd.Env = append(os.Environ(), "VERIFHOOK=", "NO_COLOR=1")
	cmd.SysProcAttr = &syscall.SysProcAttr{Pdeathsig: syscall.SIGKILL}
	if err := cmd.Start(); err != nil {
		_ = lf.Close()
		return nil, err
	}
	s := &Serv{Port: port, URL: fmt.Sprintf("http://127.0.0.1:%d", port), Flags: flags, LogPath: logPath,
		Pid: cmd.Process.Pid, cmd: cmd, logf: lf, exited: make(chan struct{})}
	go func() {
		err := cmd.Wait()
		s.exitMu.Lock()
		s.exit = err
		s.exitMu.Unlock()
		close(s.exited)
	}()
	hc := &http.Client{Timeout: 2 * time.Second}
	deadline := time.Now().Add(20 * time.Second)
	for time.Now().Before(deadline) {
		select {
		case <-s.exited:
			_ = lf.Close()
			return nil, fmt.Errorf("thruserv exited during start on port %d: %v; log: %s", port, s.exit, tailFile(logPath, 400))
		default:
		}
		resp, err := hc.Get(s.URL + "/health")
		if err == nil {
			body, _ := io.ReadAll(resp.Body)
			_ = resp.Body.Close()
			if resp.StatusCode == 200 && bytes.Contains(body, []byte(`"ok":true`)) {
				// make sure the answer came from our process: a thruserv that lost the
				// port to somebody else exits within milliseconds.
				select {
				case <-s.exited:
					_ = lf.Close()
					return nil, fmt.Errorf("thruserv exited right after start on port %d (port taken?)", port)
				case <-time.After(120 * time.Millisecond):
				}
				if s.ownsPort() {
					return s, nil
				}
				s.Stop()
				return nil, fmt.Errorf("port %d is served by another process", port)
			}
		}
		time.Sleep(25 * time.Millisecond)
	}
	s.Stop()
	return nil, fmt.Errorf("thruserv on port %d not ready within 20s; log: %s", port, tailFile(logPath, 400))
}

// ownsPort checks through /proc that a listening socket on s.Port belongs to
// our child (best effort: true when /proc cannot be read).
func (s *Serv) ownsPort() bool {
	inodes := map[string]bool{}
	for _, f := range []string{"/proc/net/tcp", "/proc/net/tcp6"} {
		data, err := os.ReadFile(f)
		if err != nil {
			continue
		}
		for _, line := range strings.Split(string(data), "\n")[1:] {
			fs := strings.Fields(line)
			if len(fs) < 10 || fs[3] != "0A" {
				continue
			}
			i := strings.LastIndex(fs[1], ":")
			if i < 0 {
				continue
			}
			p, err := strconv.ParseInt(fs[1][i+1:], 16, 32)
			if err != nil || int(p) != s.Port {
				continue
			}
			inodes[fs[9]] = true
		}
	}
	if len(inodes) == 0 {
		return true
	}
	fds, err := os.ReadDir(fmt.Sprintf("/proc/%d/fd", s.Pid))
	if err != nil {
		return true
	}
	for _, fd := range fds {
		l, err := os.Readlink(fmt.Sprintf("/proc/%d/fd/%s", s.Pid, fd.Name()))
		if err != nil {
			continue
		}
		if strings.HasPrefix(l, "socket:[") && inodes[strings.TrimSuffix(strings.TrimPrefix(l, "socket:["), "]")] {
			return true
		}
	}
	return false
}

// Alive reports whether the process is still running.
func (s *Serv) Alive() bool {
	select {
	case <-s.exited:
		return false
	default:
		return true
	}
}

// Stop terminates the process by PID (SIGTERM, then SIGKILL) and closes the log.
func (s *Serv) Stop() {
	s.stopMu.Lock()
	defer s.stopMu.Unlock()
	if s.stopped {
		return
	}
	s.stopped = true
	if s.Alive() {
		_ = s.cmd.Process.Signal(syscall.SIGTERM)
		select {
		case <-s.exited:
		case <-time.After(3 * time.Second):
			_ = s.cmd.Process.Kill()
			select {
			case <-s.exited:
			case <-time.After(3 * time.Second):
			}
		}
	}
	_ = s.logf.Close()
}

// LogText returns the captured output so far.
func (s *Serv) LogText() string {
	data, _ := os.ReadFile(s.LogPath)
	return string(data)
}

// LogCount counts the output lines containing sub.
func (s *Serv) LogCount(sub string) int {
	return strings.Count(s.LogText(), sub)
}

// LogTail returns the last n bytes of the captured output.
func (s *Serv) LogTail(n int) string { return tailFile(s.LogPath, n) }

func tailFile(p string, n int) string {
	data, err := os.ReadFile(p)
	if err != nil {
		return ""
	}
	if len(data) > n {
		data = data[len(data)-n:]
	}
	return string(data)
}

// RawSession is the decoded body of POST /session as the server sent it.
type RawSession struct {
	Status    int
	Body      string
	Fields    map[string]any
	SessionID string
	JoinCode  string
}

// CreateSessionRaw does a plain POST /session (no client code of the repository involved).
func CreateSessionRaw(baseURL string, query string) (RawSession, error) {
	u := baseURL + "/session"
	if query != "" {
		u += "?" + query
	}
	hc := &http.Client{Timeout: 10 * time.Second}
	resp, err := hc.Post(u, "application/json", nil)
	if err != nil {
		return RawSession{}, err
	}
	defer resp.Body.Close()
	body, _ := io.ReadAll(resp.Body)
	rs := RawSession{Status: resp.StatusCode, Body: string(body), Fields: map[string]any{}}
	_ = json.Unmarshal(body, &rs.Fields)
	if v, ok := rs.Fields["session_id"].(string); ok {
		rs.SessionID = v
	}
	if v, ok := rs.Fields["join_code"].(string); ok {
		rs.JoinCode = v
	}
	return rs, nil
}

// WSURL builds ws://host/ws?join_code=..&peer_id=..&role=.. independently of the repository's client.
func WSURL(baseURL, joinCode, peerID, role string) string {
	u, _ := url.Parse(baseURL)
	q := url.Values{}
	q.Set("join_code", joinCode)
	q.Set("peer_id", peerID)
	q.Set("role", role)
	return (&url.URL{Scheme: "ws", Host: u.Host, Path: "/ws", RawQuery: q.Encode()}).String()
}

// ---------------------------------------------------------------------------
// recording WebSocket client

// WSRecv is one frame received by a WSClient.
type WSRecv struct {
	Idx     int               `json:"idx"`
	T       time.Duration     `json:"t_ns"` // MonoNow() when ReadMessage returned
	Kind    int               `json:"kind"` // websocket.TextMessage / BinaryMessage
	Raw     []byte            `json:"-"`
	Env     protocol.Envelope `json:"env"`
	BadJSON bool              `json:"bad_json,omitempty"`
}

// WSClient is a WebSocket client that records every received frame with a
// monotonic timestamp. Reading never stops until the connection ends (unless
// PauseReading is used).
type WSClient struct {
	URL        string
	DialStart  time.Duration
	DialDone   time.Duration
	HTTPStatus int

	conn *websocket.Conn
	wmu  sync.Mutex

	mu       sync.Mutex
	cond     *sync.Cond
	log      []WSRecv
	readErr  error
	readDone bool
	readEndT time.Duration
	onRecv   func(WSRecv)
	paused   chan struct{} // non-nil while reading is paused

	closeOnce  sync.Once
	CloseStart time.Duration // MonoNow() when Close() was called (0 = never)
	CloseDone  time.Duration
}

// DialWS connects; onRecv (may be nil) is called from the reader goroutine
// for every frame after it was appended to the log. A refused upgrade returns
// the HTTP status in the error and in HTTPStatus of the returned (unusable) client.
func DialWS(wsURL string, timeout time.Duration, onRecv func(WSRecv)) (*WSClient, error) {
	c := &WSClient{URL: wsURL, onRecv: onRecv}
	c.cond = sync.NewCond(&c.mu)
	d := websocket.Dialer{HandshakeTimeout: timeout}
	c.DialStart = MonoNow()
	conn, resp, err := d.Dial(wsURL, nil)
	c.DialDone = MonoNow()
	if resp != nil {
		c.HTTPStatus = resp.StatusCode
	}
	if err != nil {
		body := ""
		if resp != nil && resp.Body != nil {
			b, _ := io.ReadAll(io.LimitReader(resp.Body, 512))
			body = string(b)
			_ = resp.Body.Close()
		}
		return c, fmt.Errorf("ws dial failed (http %d %s): %w", c.HTTPStatus, strings.TrimSpace(body), err)
	}
	c.conn = conn
	go c.readLoop()
	return c, nil
}

func (c *WSClient) readLoop() {
	for {
		c.mu.Lock()
		p := c.paused
		c.mu.Unlock()
		if p != nil {
			<-p
		}
		kind, data, err := c.conn.ReadMessage()
		t := MonoNow()
		if err != nil {
			c.mu.Lock()
			c.readErr = err
			c.readDone = true
			c.readEndT = t
			c.cond.Broadcast()
			c.mu.Unlock()
			return
		}
		rec := WSRecv{T: t, Kind: kind, Raw: data}
		if kind == websocket.TextMessage {
			if e := json.Unmarshal(data, &rec.Env); e != nil {
				rec.BadJSON = true
			}
		}
		c.mu.Lock()
		rec.Idx = len(c.log)
		c.log = append(c.log, rec)
		cb := c.onRecv
		c.cond.Broadcast()
		c.mu.Unlock()
		if cb != nil {
			cb(rec)
		}
	}
}

// PauseReading makes the reader stop before its next ReadMessage until ResumeReading.
func (c *WSClient) PauseReading() {
	c.mu.Lock()
	if c.paused == nil {
		c.paused = make(chan struct{})
	}
	c.mu.Unlock()
}

func (c *WSClient) ResumeReading() {
	c.mu.Lock()
	if c.paused != nil {
		close(c.paused)
		c.paused = nil
	}
	c.mu.Unlock()
}

// SendText writes one text frame (any bytes; not validated).
func (c *WSClient) SendText(b []byte) error { return c.write(websocket.TextMessage, b) }

// SendBinary writes one binary frame.
func (c *WSClient) SendBinary(b []byte) error { return c.write(websocket.BinaryMessage, b) }

// SendJSON marshals v and writes it as a text frame.
func (c *WSClient) SendJSON(v any) error {
	b, err := json.Marshal(v)
	if err != nil {
		return err
	}
	return c.write(websocket.TextMessage, b)
}

func (c *WSClient) write(kind int, b []byte) error {
	if c.conn == nil {
		return errors.New("not connected")
	}
	c.wmu.Lock()
	defer c.wmu.Unlock()
	_ = c.conn.SetWriteDeadline(time.Now().Add(20 * time.Second))
	return c.conn.WriteMessage(kind, b)
}

// Log returns a snapshot of everything received so far.
func (c *WSClient) Log() []WSRecv {
	c.mu.Lock()
	defer c.mu.Unlock()
	out := make([]WSRecv, len(c.log))
	copy(out, c.log)
	return out
}

// LogFrom returns a snapshot of the frames with index >= i.
func (c *WSClient) LogFrom(i int) []WSRecv {
	c.mu.Lock()
	defer c.mu.Unlock()
	if i < 0 {
		i = 0
	}
	if i >= len(c.log) {
		return nil
	}
	out := make([]WSRecv, len(c.log)-i)
	copy(out, c.log[i:])
	return out
}

// Len is the number of frames received so far.
func (c *WSClient) Len() int { c.mu.Lock(); defer c.mu.Unlock(); return len(c.log) }

// ReadEnded reports whether the reader saw the end of the connection and why.
func (c *WSClient) ReadEnded() (bool, error) {
	c.mu.Lock()
	defer c.mu.Unlock()
	return c.readDone, c.readErr
}

// ReadEndAt is the MonoNow() at which the reader saw the end of the connection (0 = still reading).
func (c *WSClient) ReadEndAt() time.Duration {
	c.mu.Lock()
	defer c.mu.Unlock()
	return c.readEndT
}

// WaitFor blocks until pred holds for some received frame (scanning from the
// start of the log), the connection ended, or the watchdog expired.
// Returns the frame and true when found.
func (c *WSClient) WaitFor(pred func(WSRecv) bool, watchdog time.Duration) (WSRecv, bool) {
	deadline := time.Now().Add(watchdog)
	stop := make(chan struct{})
	defer close(stop)
	go func() {
		select {
		case <-time.After(watchdog + 10*time.Millisecond):
			c.mu.Lock()
			c.cond.Broadcast()
			c.mu.Unlock()
		case <-stop:
		}
	}()
	c.mu.Lock()
	defer c.mu.Unlock()
	next := 0
	for {
		for ; next < len(c.log); next++ {
			if pred(c.log[next]) {
				return c.log[next], true
			}
		}
		if c.readDone || !time.Now().Before(deadline) {
			return WSRecv{}, false
		}
		c.cond.Wait()
	}
}

// WaitType waits for the first envelope of the given type.
func (c *WSClient) WaitType(typ string, watchdog time.Duration) (WSRecv, bool) {
	return c.WaitFor(func(r WSRecv) bool { return !r.BadJSON && r.Env.Type == typ }, watchdog)
}

// Close closes the socket abruptly (TCP close without a close handshake when
// graceful is false; with a close frame otherwise). Safe to call twice.
func (c *WSClient) Close(graceful bool) {
	c.closeOnce.Do(func() {
		c.CloseStart = MonoNow()
		if c.conn != nil {
			if graceful {
				c.wmu.Lock()
				_ = c.conn.WriteControl(websocket.CloseMessage,
					websocket.FormatCloseMessage(websocket.CloseNormalClosure, ""), time.Now().Add(2*time.Second))
				c.wmu.Unlock()
			}
			_ = c.conn.Close()
		}
		c.ResumeReading()
		c.CloseDone = MonoNow()
	})
}
