//go:build verif

package verifkit

// serv_c10.go: a TCP-graceful way for the recording WebSocket client to leave
// (added for the C10 send-then-leave stage). Nothing here decides a verdict.

import (
	"net"
	"time"

	"github.com/gorilla/websocket"
)

// CloseDrained leaves without ever resetting the TCP connection: an optional
// WebSocket close frame, then shutdown(SHUT_WR) – everything written before is
// transmitted and followed by FIN – while the reader goroutine keeps draining
// until the server has closed its side (EOF); only then the socket is closed.
// (Close(false) closes the socket at once; if inbound data is unread at that
// moment the kernel answers with RST and discards what it had not transmitted
// yet, which makes "the client sent it" meaningless for the last writes.)
// Returns false when the server's EOF was not seen within the watchdog.
func (c *WSClient) CloseDrained(frame bool, watchdog time.Duration) bool {
	sawEOF := true
	c.closeOnce.Do(func() {
		c.CloseStart = MonoNow()
		if c.conn != nil {
			c.wmu.Lock()
			if frame {
				_ = c.conn.WriteControl(websocket.CloseMessage,
					websocket.FormatCloseMessage(websocket.CloseNormalClosure, ""), time.Now().Add(5*time.Second))
			}
			if tc, ok := c.conn.UnderlyingConn().(*net.TCPConn); ok {
				_ = tc.CloseWrite()
			}
			c.wmu.Unlock()
			c.ResumeReading()
			deadline := time.Now().Add(watchdog)
			for {
				if ended, _ := c.ReadEnded(); ended {
					break
				}
				if time.Now().After(deadline) {
					sawEOF = false
					break
				}
				time.Sleep(200 * time.Microsecond)
			}
			_ = c.conn.Close()
		}
		c.CloseDone = MonoNow()
	})
	return sawEOF
}
