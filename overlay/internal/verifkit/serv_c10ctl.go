//go:build verif

package verifkit

// serv_c10ctl.go: lets the recording WebSocket client send WebSocket control
// frames (ping / pong) to the server (added for the C10 control-frame rounds).
// Nothing here decides a verdict.

import (
	"errors"
	"time"
)

// SendControl writes one control frame (websocket.PingMessage / PongMessage) with
// at most 125 bytes of application data. Safe to call concurrently with the
// other Send* methods.
func (c *WSClient) SendControl(kind int, data []byte) error {
	if c.conn == nil {
		return errors.New("not connected")
	}
	c.wmu.Lock()
	defer c.wmu.Unlock()
	return c.conn.WriteControl(kind, data, time.Now().Add(20*time.Second))
}
