//go:build verif

package verifkit

// serv_env.go: StartServEnv — like StartServ, but the caller supplies extra
// environment entries for the thruserv process (e.g. VERIFHOOK=... to perturb /
// log the hub hook points inside the real server, VERIFHOOK_LOG=path). Added for
// C11's server stage; nothing here decides a verdict.

import (
	"bytes"
	"fmt"
	"io"
	"net/http"
	"os"
	"os/exec"
	"strconv"
	"syscall"
	"time"
)

// StartServEnv starts the real thruserv on a free port with flags (must not
// contain --port) and env entries appended after the inherited environment
// (VERIFHOOK defaults to empty unless env sets it). Readiness and port
// ownership are checked exactly as in StartServ.
func StartServEnv(bin string, flags []string, logPath string, env []string) (*Serv, error) {
	var lastErr error
	for attempt := 0; attempt < 6; attempt++ {
		port, err := FreePort()
		if err != nil {
			lastErr = err
			continue
		}
		s, err := startServOnEnv(bin, port, flags, logPath, env)
		if err == nil {
			return s, nil
		}
		lastErr = err
	}
	return nil, fmt.Errorf("%w: %v", ErrServStart, lastErr)
}

func startServOnEnv(bin string, port int, flags []string, logPath string, env []string) (*Serv, error) {
	lf, err := os.OpenFile(logPath, os.O_CREATE|os.O_WRONLY|os.O_APPEND, 0644)
	if err != nil {
		return nil, err
	}
	args := append([]string{"--port", strconv.Itoa(port)}, flags...)
	cmd := exec.Command(bin, args...)
	cmd.Stdout = lf
	cmd.Stderr = lf
	cmd.Stdin = nil
	cmd.Env = append(append(os.Environ(), "VERIFHOOK=", "NO_COLOR=1"), env...)
	cmd.SysProcAttr = &syscall.SysProcAttr{Pdeathsig: syscall.SIGKILL}
	if err := cmd.Start(); err != nil {
		_ = lf.Close()
		return nil, err
	}
	s := &Serv{Port: port, URL: fmt.Sprintf("http://127.0.0.1:%d", port), Flags: flags, LogPath: logPath,
		Pid: cmd.Process.Pid, cmd: cmd, logf: lf, exited: make(chan struct{})}
	go func() {
		err := cmd.Wait()
		s.exitMu.Lock()
		s.exit = err
		s.exitMu.Unlock()
		close(s.exited)
	}()
	hc := &http.Client{Timeout: 2 * time.Second}
	deadline := time.Now().Add(30 * time.Second)
	for time.Now().Before(deadline) {
		select {
		case <-s.exited:
			_ = lf.Close()
			return nil, fmt.Errorf("thruserv exited during start on port %d: %v; log: %s", port, s.exit, tailFile(logPath, 400))
		default:
		}
		resp, err := hc.Get(s.URL + "/health")
		if err == nil {
			body, _ := io.ReadAll(resp.Body)
			_ = resp.Body.Close()
			if resp.StatusCode == 200 && bytes.Contains(body, []byte(`"ok":true`)) {
				select {
				case <-s.exited:
					_ = lf.Close()
					return nil, fmt.Errorf("thruserv exited right after start on port %d (port taken?)", port)
				case <-time.After(120 * time.Millisecond):
				}
				if s.ownsPort() {
					return s, nil
				}
				s.Stop()
				return nil, fmt.Errorf("port %d is served by another process", port)
			}
		}
		time.Sleep(25 * time.Millisecond)
	}
	s.Stop()
	return nil, fmt.Errorf("thruserv on port %d not ready within 30s; log: %s", port, tailFile(logPath, 400))
}

// ExitErr returns the wait error of the process once it has exited (nil while it runs).
func (s *Serv) ExitErr() error {
	s.exitMu.Lock()
	defer s.exitMu.Unlock()
	return s.exit
}
