//go:build verif

package verifkit

import (
	"errors"
	"fmt"
	"os/exec"
	"syscall"
)

// ExitInfo describes how the thruserv process ended (exited == false while it runs).
// killedBy is the name of the signal when the process was ended by SIGKILL or SIGTERM:
// thruserv never sends those to itself (a Go panic / runtime crash ends with exit status 2
// or SIGABRT / SIGSEGV and output in the log), so such an end came from outside the
// harness/server pair (another process, the OOM killer) unless the harness called Stop.
func (s *Serv) ExitInfo() (exited bool, killedBy string, desc string) {
	select {
	case <-s.exited:
	default:
		return false, "", "running"
	}
	s.exitMu.Lock()
	err := s.exit
	s.exitMu.Unlock()
	if err == nil {
		return true, "", "exit status 0"
	}
	var ee *exec.ExitError
	if errors.As(err, &ee) {
		if ws, ok := ee.Sys().(syscall.WaitStatus); ok && ws.Signaled() {
			sig := ws.Signal()
			if sig == syscall.SIGKILL || sig == syscall.SIGTERM {
				return true, sig.String(), "ended by signal " + sig.String()
			}
			return true, "", "ended by signal " + sig.String()
		}
	}
	return true, "", fmt.Sprint(err)
}
