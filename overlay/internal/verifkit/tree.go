//go:build verif

package verifkit

import (
	"crypto/sha256"
	"encoding/binary"
	"encoding/hex"
	"fmt"
	"io"
	"os"
	"path/filepath"
	"sort"
	"strings"
)

// Entry describes one generated tree entry (path relative to the tree root,
// slash separated).
type Entry struct {
	Rel  string `json:"rel"`
	Size int64  `json:"size"`
	Dir  bool   `json:"dir,omitempty"`
	// ZeroCS > 0: every odd block of ZeroCS bytes of the file is zero
	ZeroCS int64 `json:"zero_cs,omitempty"`
	// Link != "": the entry is a symbolic link with this target that cannot be
	// sent as a file (dangling, or pointing to a directory); it is expected to be
	// left out of the transfer, and nothing else with it
	Link string `json:"link,omitempty"`
}

// Tree is a generated source tree. Content of every file is a function of
// (Seed, Rel, offset), so each chunk is unique across the tree.
type Tree struct {
	Seed    uint64  `json:"seed"`
	Shape   string  `json:"shape"`
	Names   string  `json:"names"`
	Entries []Entry `json:"entries"`
}

// FillContent fills buf with the pseudo-random content of file rel at offset
// off (unique per (seed, name, offset)).
func FillContent(seed uint64, rel string, off int64, buf []byte) {
	key := Mix(seed ^ HashStr(rel))
	var w [8]byte
	i := 0
	for i < len(buf) {
		blk := (off + int64(i)) / 8
		binary.LittleEndian.PutUint64(w[:], Mix(key+uint64(blk)*0x9e3779b97f4a7c15))
		start := int((off + int64(i)) % 8)
		n := copy(buf[i:], w[start:])
		i += n
	}
}

// Fill fills buf with the content of entry e at offset off: FillContent, and
// for entries with ZeroCS > 0 every odd block of ZeroCS bytes is zero, so that
// a transfer with that chunk size carries chunks that are entirely zero
// (content-dependent shortcuts of an endpoint - sparse writes, deduplication -
// become visible).
func (t Tree) Fill(e Entry, off int64, buf []byte) {
	FillContent(t.Seed, e.Rel, off, buf)
	if e.ZeroCS > 0 {
		for i := range buf {
			if ((off+int64(i))/e.ZeroCS)%2 == 1 {
				buf[i] = 0
			}
		}
	}
}

// EntryByRel returns the entry with the given relative path.
func (t Tree) EntryByRel(rel string) (Entry, bool) {
	for _, e := range t.Entries {
		if e.Rel == rel {
			return e, true
		}
	}
	return Entry{}, false
}

// Materialize writes the tree under root (root is created).
func (t Tree) Materialize(root string) error {
	if err := os.MkdirAll(root, 0755); err != nil {
		return err
	}
	for _, e := range t.Entries {
		p := filepath.Join(root, filepath.FromSlash(e.Rel))
		if e.Dir {
			if err := os.MkdirAll(p, 0755); err != nil {
				return err
			}
			continue
		}
		if err := os.MkdirAll(filepath.Dir(p), 0755); err != nil {
			return err
		}
		if e.Link != "" {
			if err := os.Symlink(e.Link, p); err != nil {
				return err
			}
			continue
		}
		buf := make([]byte, e.Size)
		t.Fill(e, 0, buf)
		if err := os.WriteFile(p, buf, 0644); err != nil {
			return err
		}
	}
	return nil
}

// FileCount returns the number of regular files.
func (t Tree) FileCount() int {
	n := 0
	for _, e := range t.Entries {
		if !e.Dir && e.Link == "" {
			n++
		}
	}
	return n
}

// MaxChunks returns the largest per-file chunk count for chunk size cs.
func (t Tree) MaxChunks(cs int64) int64 {
	var m int64
	for _, e := range t.Entries {
		if e.Dir || cs <= 0 {
			continue
		}
		c := (e.Size + cs - 1) / cs
		if c > m {
			m = c
		}
	}
	return m
}

// Name classes.
var NameClasses = []string{"plain", "unicode", "dotdash", "backslash", "dotdot", "long255", "longpath", "badutf8", "control"}

func nameFor(class string, r *Rng, i int) string {
	switch class {
	case "unicode":
		return fmt.Sprintf("fï le %d ✓ 名前", i)
	case "dotdash":
		if i%2 == 0 {
			return fmt.Sprintf(".hidden%d", i)
		}
		return fmt.Sprintf("-dash%d", i)
	case "backslash":
		return fmt.Sprintf("back\\slash%d", i)
	case "dotdot":
		return fmt.Sprintf("a..b%d.txt", i)
	case "long255":
		return fmt.Sprintf("%03d", i) + strings.Repeat("L", 252)
	case "badutf8":
		return fmt.Sprintf("bad\xff\xfe%d", i)
	case "control":
		return fmt.Sprintf("ctl\x01\x1f%d", i)
	default:
		return fmt.Sprintf("f%d.bin", i)
	}
}

// SizesAround returns the interesting sizes relative to chunk size cs.
func SizesAround(cs int64) []int64 {
	s := []int64{0, 1, cs - 1, cs, cs + 1, 2*cs - 1, 2 * cs, 2*cs + 1, 3*cs + cs/2, 5 * cs}
	out := s[:0]
	seen := map[int64]bool{}
	for _, v := range s {
		if v < 0 || seen[v] {
			continue
		}
		seen[v] = true
		out = append(out, v)
	}
	return out
}

// Shapes of generated trees.
var Shapes = []string{"empty", "dirsonly", "zerolen", "onefile", "manysmall", "nested", "fewchunks", "boundary"}

// GenTree generates a tree of the given shape. cs is the chunk size the
// transfer will use (sizes are chosen relative to it); maxBytes caps file size.
func GenTree(seed uint64, shape, names string, cs int64, maxBytes int64) Tree {
	r := NewRng(seed ^ HashStr(shape+"/"+names))
	t := Tree{Seed: seed, Shape: shape, Names: names}
	capSize := func(v int64) int64 {
		if v > maxBytes {
			return maxBytes
		}
		return v
	}
	nm := func(i int) string { return nameFor(names, r, i) }
	sizes := SizesAround(cs)
	switch shape {
	case "empty":
	case "dirsonly":
		t.Entries = append(t.Entries, Entry{Rel: "d1", Dir: true}, Entry{Rel: "d1/d2", Dir: true}, Entry{Rel: "d3", Dir: true})
	case "zerolen":
		n := 1 + r.Intn(4)
		for i := 0; i < n; i++ {
			t.Entries = append(t.Entries, Entry{Rel: nm(i), Size: 0})
		}
	case "onefile":
		t.Entries = append(t.Entries, Entry{Rel: nm(0), Size: capSize(sizes[r.Intn(len(sizes))])})
	case "manysmall":
		n := 5 + r.Intn(20)
		for i := 0; i < n; i++ {
			t.Entries = append(t.Entries, Entry{Rel: nm(i), Size: capSize(int64(r.Intn(int(2*cs + 2))))})
		}
	case "manytiny":
		// thousands of tiny files in a few dozen directories (per-file work of
		// the application layer dominates: progress plumbing, acknowledgements)
		n := 2500 + r.Intn(1000)
		nd := 20 + r.Intn(30)
		for d := 0; d < nd; d++ {
			t.Entries = append(t.Entries, Entry{Rel: fmt.Sprintf("d%02d", d), Dir: true})
		}
		for i := 0; i < n; i++ {
			t.Entries = append(t.Entries, Entry{Rel: fmt.Sprintf("d%02d/t%04d", r.Intn(nd), i), Size: int64(r.Intn(40))})
		}
	case "bigmanifest":
		// a manifest whose JSON exceeds 1 MiB (the control header is then read
		// in several steps): ~1700 small files below long directory names
		d := strings.Repeat("d", 200) + "/" + strings.Repeat("e", 200) + "/" + strings.Repeat("f", 200)
		n := 1700 + r.Intn(300)
		for i := 0; i < n; i++ {
			t.Entries = append(t.Entries, Entry{Rel: fmt.Sprintf("%s/%s-%05d", d, strings.Repeat("n", 60), i), Size: int64(r.Intn(3))})
		}
	case "linksiblings":
		// symbolic links that cannot be sent as files (dangling / to a directory)
		// in the middle of their directories: everything around them is hosted
		t.Entries = append(t.Entries,
			Entry{Rel: "a.bin", Size: capSize(sizes[r.Intn(len(sizes))])}, Entry{Rel: "l-dangling", Link: "does-not-exist"}, Entry{Rel: "m.bin", Size: capSize(cs + 1)},
			Entry{Rel: "n-dirlink", Link: "sub"}, Entry{Rel: "sub", Dir: true}, Entry{Rel: "sub/b-dangling", Link: "../nowhere"}, Entry{Rel: "sub/x.bin", Size: capSize(2 * cs)},
			Entry{Rel: "sub/deep", Dir: true}, Entry{Rel: "sub/deep/y.bin", Size: 3}, Entry{Rel: "z.bin", Size: capSize(int64(r.Intn(int(cs + 1))))}, Entry{Rel: "zz-empty", Dir: true})
	case "prefixnames":
		// names that are string prefixes of their neighbours in sort order:
		// empty directories next to files / directories whose name continues
		// theirs, files next to directories, with and without separators
		t.Entries = append(t.Entries,
			Entry{Rel: "build", Dir: true}, Entry{Rel: "build.log", Size: capSize(sizes[r.Intn(len(sizes))])},
			Entry{Rel: "docs", Dir: true}, Entry{Rel: "docs-old", Dir: true}, Entry{Rel: "docs-old/" + nm(1), Size: capSize(1 + int64(r.Intn(int(cs+1))))},
			Entry{Rel: "pkg", Dir: true}, Entry{Rel: "pkg/gen", Dir: true}, Entry{Rel: "pkg/generated.go", Size: capSize(cs)},
			Entry{Rel: "a", Dir: true}, Entry{Rel: "a/b", Dir: true}, Entry{Rel: "a/bc", Size: 3}, Entry{Rel: "ab", Size: capSize(2*cs + 1)},
			Entry{Rel: "x", Size: 1}, Entry{Rel: "x.d", Dir: true}, Entry{Rel: "x.d/x", Size: 0}, Entry{Rel: "z", Dir: true}, Entry{Rel: "z ", Dir: true}, Entry{Rel: "z0", Dir: true})
	case "nested":
		t.Entries = append(t.Entries, Entry{Rel: "sub", Dir: true}, Entry{Rel: "sub/deep", Dir: true}, Entry{Rel: "emptydir", Dir: true}, Entry{Rel: "sub/emptydir2", Dir: true})
		n := 3 + r.Intn(6)
		for i := 0; i < n; i++ {
			prefix := []string{"", "sub/", "sub/deep/"}[r.Intn(3)]
			t.Entries = append(t.Entries, Entry{Rel: prefix + nm(i), Size: capSize(sizes[r.Intn(len(sizes))])})
		}
	case "fewchunks":
		// fewer chunks than streams: 1-2 files of 1-2 chunks
		n := 1 + r.Intn(2)
		for i := 0; i < n; i++ {
			t.Entries = append(t.Entries, Entry{Rel: nm(i), Size: capSize(1 + int64(r.Intn(int(2*cs))))})
		}
	case "boundary":
		for i, s := range sizes {
			t.Entries = append(t.Entries, Entry{Rel: nm(i), Size: capSize(s)})
		}
	case "longpath":
		// relative path just under the 1024-byte protocol limit
		comp := strings.Repeat("p", 200)
		rel := comp + "/" + comp + "/" + comp + "/" + comp + "/" + strings.Repeat("q", 1024-4*201-40)
		t.Entries = append(t.Entries, Entry{Rel: rel, Size: capSize(cs + 1)})
	}
	for i := range t.Entries {
		if en := &t.Entries[i]; !en.Dir && cs > 0 && en.Size > cs && shape != "manytiny" && r.Intn(3) == 0 {
			en.ZeroCS = cs
		}
	}
	sort.Slice(t.Entries, func(i, j int) bool { return t.Entries[i].Rel < t.Entries[j].Rel })
	return t
}

// DigestEntry is one entry of a tree digest.
type DigestEntry struct {
	Kind string `json:"kind"` // "dir" | "file" | "other"
	Size int64  `json:"size"`
	Sum  string `json:"sum,omitempty"`
}

const ResumeDirName = ".thruflux_resumedata"

// Digest walks root and returns relpath -> entry, excluding the tool's own
// resume-metadata directory (at any depth) and the root itself.
func Digest(root string) (map[string]DigestEntry, error) {
	out := map[string]DigestEntry{}
	err := filepath.Walk(root, func(p string, info os.FileInfo, err error) error {
		if err != nil {
			return err
		}
		rel, _ := filepath.Rel(root, p)
		if rel == "." {
			return nil
		}
		if info.IsDir() && info.Name() == ResumeDirName {
			return filepath.SkipDir
		}
		rel = filepath.ToSlash(rel)
		switch {
		case info.IsDir():
			out[rel] = DigestEntry{Kind: "dir"}
		case info.Mode().IsRegular():
			f, err := os.Open(p)
			if err != nil {
				return err
			}
			h := sha256.New()
			n, err := io.Copy(h, f)
			f.Close()
			if err != nil {
				return err
			}
			out[rel] = DigestEntry{Kind: "file", Size: n, Sum: hex.EncodeToString(h.Sum(nil)[:12])}
		default:
			out[rel] = DigestEntry{Kind: "other", Size: info.Size()}
		}
		return nil
	})
	return out, err
}

// ExpectedDigest computes the digest the receiver's output directory must have
// for tree t when every manifest path is prefixed with prefix ("" or "name/").
func ExpectedDigest(t Tree, prefix string) map[string]DigestEntry {
	out := map[string]DigestEntry{}
	addParents := func(rel string) {
		parts := strings.Split(rel, "/")
		for i := 1; i < len(parts); i++ {
			out[strings.Join(parts[:i], "/")] = DigestEntry{Kind: "dir"}
		}
	}
	if prefix != "" {
		out[strings.TrimSuffix(prefix, "/")] = DigestEntry{Kind: "dir"}
		addParents(prefix + "x")
	}
	for _, e := range t.Entries {
		if e.Link != "" {
			continue
		}
		rel := prefix + e.Rel
		addParents(rel)
		if e.Dir {
			out[rel] = DigestEntry{Kind: "dir"}
			continue
		}
		buf := make([]byte, e.Size)
		t.Fill(e, 0, buf)
		s := sha256.Sum256(buf)
		out[rel] = DigestEntry{Kind: "file", Size: e.Size, Sum: hex.EncodeToString(s[:12])}
	}
	return out
}

// DiffDigest lists differences between want and got (empty = identical).
func DiffDigest(want, got map[string]DigestEntry) []string {
	var d []string
	for k, w := range want {
		g, ok := got[k]
		if !ok {
			d = append(d, "missing:"+k)
			continue
		}
		if g != w {
			d = append(d, fmt.Sprintf("differs:%s want=%v got=%v", k, w, g))
		}
	}
	for k := range got {
		if _, ok := want[k]; !ok {
			d = append(d, "extra:"+k)
		}
	}
	sort.Strings(d)
	if len(d) > 12 {
		d = append(d[:12], fmt.Sprintf("... %d more", len(d)-12))
	}
	return d
}
