//go:build verif

package verifkit

import (
	"context"
	"fmt"
	"os"
	"path/filepath"
	"bytes"
	"runtime/pprof"
	"strings"
	"sync/atomic"
	"sync"
	"time"

	"github.com/sheerbytes/sheerbytes/internal/app"
	"github.com/sheerbytes/sheerbytes/internal/transfer"
	"github.com/sheerbytes/sheerbytes/pkg/manifest"
)

// XferCfg configures one library-level transfer between the real
// SendManifestMultiStream and RecvManifestMultiStream.
type XferCfg struct {
	Transport string `json:"transport"` // "mock" | "quic"
	Conns     int    `json:"conns"`     // >1 wraps with NewMultiConn (quic only)
	Streams   int    `json:"streams"`
	ChunkSize uint32 `json:"cs"`
	Resume    bool   `json:"resume"`
	NoRootDir bool   `json:"norootdir"`
	ScanPaths bool   `json:"scanpaths"` // production mode: ScanPaths + path resolver, root "."
	HashAlg   string `json:"hashalg,omitempty"`
	RecvStreams int  `json:"recv_streams,omitempty"`
	// SrcList (ScanPaths mode only): the hosted selection, in command-line
	// order, instead of the single srcRoot (several paths, possibly with equal
	// base names). The caller computes the expected digest itself.
	SrcList []string `json:"-"`
	// KeepSenderOpen: the sender's connection is not closed when its transfer
	// function returns but only when the receiver has returned too (or the
	// watchdog fired). Used where the close racing ahead of the last records
	// is a recorded finding of its own and must not mask what is being looked at.
	KeepSenderOpen bool `json:"keep_sender_open,omitempty"`
	// ResumeTimeoutMs > 0: the sender's Options.ResumeTimeout (the CLI leaves it
	// 0, internal/config defaults it to 10 s)
	ResumeTimeoutMs int `json:"resume_timeout_ms,omitempty"`

	WatchdogMs int `json:"watchdog_ms,omitempty"` // default 20000

	// Decorators (not serialised).
	SendDeco *Deco `json:"-"`
	RecvDeco *Deco `json:"-"`
	// Hooks for the runner.
	OnConns func(x *Xfer) `json:"-"`
	// Manifest tweak before sending (hostile-sender style tests do not use this).
	EditManifest func(m *manifest.Manifest) `json:"-"`
}

func (c XferCfg) Key() string {
	return fmt.Sprintf("%s/c%d/s%d/cs%d/res%v/nrd%v/sp%v", c.Transport, c.Conns, c.Streams, c.ChunkSize, c.Resume, c.NoRootDir, c.ScanPaths)
}

// Xfer is a running transfer; exposed to fault actions.
type Xfer struct {
	Cfg        XferCfg
	Pairs      []*Pair
	SendConn   transfer.Conn
	RecvConn   transfer.Conn
	SendCancel context.CancelFunc
	RecvCancel context.CancelFunc
	mockClose  []func()
}

// CloseSender closes the sender's connection(s) with application code 0, as
// the application does when its transfer function returns.
func (x *Xfer) CloseSender() {
	if x.SendConn != nil {
		_ = x.SendConn.Close()
	}
	for _, p := range x.Pairs {
		_ = p.Dial.Close()
	}
}

// CloseReceiver closes the receiver's connection(s) with code 0.
func (x *Xfer) CloseReceiver() {
	if x.RecvConn != nil {
		_ = x.RecvConn.Close()
	}
	for _, p := range x.Pairs {
		_ = p.Accept.Close()
	}
}

// AbortSender closes the sender's raw QUIC connections with error code 1.
func (x *Xfer) AbortSender() {
	for _, p := range x.Pairs {
		if p.RawDial != nil {
			_ = p.RawDial.CloseWithError(1, "abort")
		}
	}
}

// AbortReceiver closes the receiver's raw QUIC connections with error code 1.
func (x *Xfer) AbortReceiver() {
	for _, p := range x.Pairs {
		if p.RawAccept != nil {
			_ = p.RawAccept.CloseWithError(1, "abort")
		}
	}
}

// SilenceSender kills the sender's sockets (peer learns via idle timeout).
func (x *Xfer) SilenceSender() {
	for _, p := range x.Pairs {
		p.KillDialSocket()
	}
}

// XferResult is the outcome of a transfer.
type XferResult struct {
	SendErr      error
	RecvErr      error
	SendReturned bool
	RecvReturned bool
	Hung         bool   // watchdog fired and no I/O moved during the idle window
	SendStuck    bool   // sender had not returned when the watchdog fired
	RecvStuck    bool   // receiver had not returned when the watchdog fired
	HangDump     string // goroutine dump when Hung
	Inconclusive string
	DurMs        int64
	Manifest     manifest.Manifest
	Prefix       string // manifest path prefix relative to the output dir
	SetupErr     error
}

func (r XferResult) BothOK() bool {
	return r.SetupErr == nil && r.SendReturned && r.RecvReturned && r.SendErr == nil && r.RecvErr == nil
}

func errStr(e error) string {
	if e == nil {
		return ""
	}
	return e.Error()
}

func (r XferResult) Summary() map[string]any {
	return map[string]any{"send_err": errStr(r.SendErr), "recv_err": errStr(r.RecvErr),
		"send_returned": r.SendReturned, "recv_returned": r.RecvReturned, "hung": r.Hung, "dur_ms": r.DurMs,
		"send_stuck_at_watchdog": r.SendStuck, "recv_stuck_at_watchdog": r.RecvStuck,
		"setup_err": errStr(r.SetupErr), "inconclusive": r.Inconclusive}
}

// BuildManifest scans srcRoot the way cfg says and returns the manifest, the
// sender root path, the resolver and the expected path prefix in outDir.
func BuildManifest(cfg XferCfg, srcRoot string) (manifest.Manifest, string, func(string) string, string, error) {
	if cfg.ScanPaths {
		paths := []string{srcRoot}
		if len(cfg.SrcList) > 0 {
			paths = cfg.SrcList
		}
		m, err := manifest.ScanPaths(paths)
		if err != nil {
			return m, "", nil, "", err
		}
		res, err := app.VerifBuildPathResolver(paths)
		if err != nil {
			return m, "", nil, "", err
		}
		prefix := filepath.Base(srcRoot) + "/"
		if !cfg.NoRootDir {
			prefix = m.Root + "/" + prefix
		}
		return m, ".", res, prefix, nil
	}
	m, err := manifest.Scan(srcRoot)
	if err != nil {
		return m, "", nil, "", err
	}
	prefix := ""
	if !cfg.NoRootDir {
		prefix = m.Root + "/"
	}
	return m, srcRoot, nil, prefix, nil
}

// RunTransfer runs one transfer of the tree at srcRoot into outDir. lp is used
// for quic transports.
func RunTransfer(ctx context.Context, cfg XferCfg, lp *ListenerPool, srcRoot, outDir string) XferResult {
	var res XferResult
	start := time.Now()
	defer func() { res.DurMs = time.Since(start).Milliseconds() }()

	m, rootPath, resolver, prefix, err := BuildManifest(cfg, srcRoot)
	if err != nil {
		res.SetupErr = fmt.Errorf("scan: %w", err)
		return res
	}
	if cfg.EditManifest != nil {
		cfg.EditManifest(&m)
	}
	res.Manifest = m
	res.Prefix = prefix

	x := &Xfer{Cfg: cfg}
	conns := cfg.Conns
	if conns < 1 {
		conns = 1
	}
	switch cfg.Transport {
	case "mock":
		t1, t2 := transfer.NewMockPair()
		dc, err := t1.Dial(ctx, "peer2")
		if err != nil {
			res.SetupErr = err
			return res
		}
		ac, err := t2.Accept(ctx)
		if err != nil {
			res.SetupErr = err
			return res
		}
		x.SendConn, x.RecvConn = dc, ac
	case "quic":
		l := lp.Get()
		defer lp.Put(l)
		var sc, rc []transfer.Conn
		for i := 0; i < conns; i++ {
			p, err := l.NewPair(ctx)
			if err != nil {
				for _, q := range x.Pairs {
					q.Close()
				}
				res.SetupErr = fmt.Errorf("quic pair: %w", err)
				return res
			}
			x.Pairs = append(x.Pairs, p)
			sc = append(sc, p.Dial)
			rc = append(rc, p.Accept)
		}
		defer func() {
			for _, q := range x.Pairs {
				q.Close()
			}
		}()
		if conns > 1 {
			ms, err := transfer.NewMultiConn(sc)
			if err != nil {
				res.SetupErr = err
				return res
			}
			mr, err := transfer.NewMultiConn(rc)
			if err != nil {
				res.SetupErr = err
				return res
			}
			x.SendConn, x.RecvConn = ms, mr
		} else {
			x.SendConn, x.RecvConn = sc[0], rc[0]
		}
	default:
		res.SetupErr = fmt.Errorf("unknown transport %q", cfg.Transport)
		return res
	}

	sendConn, recvConn := x.SendConn, x.RecvConn
	if cfg.SendDeco != nil {
		cfg.SendDeco.Inner = sendConn
		sendConn = cfg.SendDeco.Wrap()
	}
	if cfg.RecvDeco != nil {
		cfg.RecvDeco.Inner = recvConn
		recvConn = cfg.RecvDeco.Wrap()
	}

	sctx, scancel := context.WithCancel(ctx)
	rctx, rcancel := context.WithCancel(ctx)
	defer scancel()
	defer rcancel()
	x.SendCancel, x.RecvCancel = scancel, rcancel
	if cfg.OnConns != nil {
		cfg.OnConns(x)
	}

	hash := cfg.HashAlg
	if hash == "" {
		hash = "crc32c"
	}
	sopts := transfer.Options{
		ChunkSize:       cfg.ChunkSize,
		ParallelFiles:   cfg.Streams,
		Resume:          cfg.Resume,
		HashAlg:         hash,
		ResolveFilePath: resolver,
		ResumeTimeout:   time.Duration(cfg.ResumeTimeoutMs) * time.Millisecond,
	}
	streams, cs := cfg.Streams, cfg.ChunkSize
	sopts.ParamSource = func() transfer.RuntimeParams {
		return transfer.RuntimeParams{ChunkSize: cs, ParallelFiles: streams}
	}
	rstreams := cfg.RecvStreams
	if rstreams == 0 {
		rstreams = cfg.Streams
	}
	ropts := transfer.Options{
		Resume:        cfg.Resume,
		NoRootDir:     cfg.NoRootDir,
		HashAlg:       hash,
		ParallelFiles: rstreams,
	}

	var mu sync.Mutex
	sdone := make(chan struct{})
	rdone := make(chan struct{})
	label := fmt.Sprintf("x%d", xferSeq.Add(1))
	go pprof.Do(context.Background(), pprof.Labels("xfer", label, "side", "send"), func(context.Context) {
		err := transfer.SendManifestMultiStream(sctx, sendConn, rootPath, m, sopts)
		mu.Lock()
		res.SendErr, res.SendReturned = err, true
		mu.Unlock()
		// the application closes the connection when its transfer function returns
		if !cfg.KeepSenderOpen {
			x.CloseSender()
		}
		close(sdone)
	})
	go pprof.Do(context.Background(), pprof.Labels("xfer", label, "side", "recv"), func(context.Context) {
		_, err := transfer.RecvManifestMultiStream(rctx, recvConn, outDir, ropts)
		mu.Lock()
		res.RecvErr, res.RecvReturned = err, true
		mu.Unlock()
		x.CloseReceiver()
		close(rdone)
	})

	wd := time.Duration(cfg.WatchdogMs) * time.Millisecond
	if wd <= 0 {
		wd = 20 * time.Second
	}
	timer := time.NewTimer(wd)
	defer timer.Stop()
	sd, rd := sdone, rdone
	for sd != nil || rd != nil {
		select {
		case <-sd:
			sd = nil
		case <-rd:
			rd = nil
		case <-timer.C:
			// bounded-progress rule, conjunct (ii): no byte moved during the last W/2
			idle := wd
			if cfg.SendDeco != nil {
				idle = cfg.SendDeco.IdleFor()
			} else if cfg.RecvDeco != nil {
				idle = cfg.RecvDeco.IdleFor()
			}
			completedLate := false
			if idle >= wd/2 {
				// confirmation windows: a deadlock stays; a transport that
				// backed off on an overloaded machine moves again. Only a
				// transfer of which a side neither returned nor moved a byte
				// for a further W/2 is reported as hung; one that keeps moving
				// for three more windows without finishing is inconclusive.
				deco := cfg.SendDeco
				if deco == nil {
					deco = cfg.RecvDeco
				}
				for round := 1; ; round++ {
					before := int64(-1)
					if deco != nil {
						before = deco.TotalBytes()
					}
					moved := false
					confirm := time.NewTimer(wd / 2)
				wait:
					for sd != nil || rd != nil {
						select {
						case <-sd:
							sd = nil
							moved = true
						case <-rd:
							rd = nil
							moved = true
						case <-confirm.C:
							break wait
						}
					}
					confirm.Stop()
					if deco != nil && deco.TotalBytes() != before {
						moved = true
					}
					if sd == nil && rd == nil {
						completedLate = true
						break
					}
					if !moved {
						break // confirmed: nothing happened for another W/2
					}
					if round == 3 {
						idle = 0 // still moving, still not done: no verdict
						break
					}
				}
			}
			if completedLate {
				mu.Lock()
				defer mu.Unlock()
				return res
			}
			mu.Lock()
			if idle >= wd/2 {
				res.Hung = true
				res.SendStuck = !res.SendReturned
				res.RecvStuck = !res.RecvReturned
				res.HangDump = GoroutineDump(label)
			} else {
				res.Inconclusive = "watchdog fired while bytes were still moving (or the transfer moved again during the confirmation window)"
			}
			mu.Unlock()
			// unblock everything so the goroutines end
			scancel()
			rcancel()
			x.CloseSender()
			x.CloseReceiver()
			select {
			case <-sdone:
			case <-time.After(3 * time.Second):
			}
			select {
			case <-rdone:
			case <-time.After(3 * time.Second):
			}
			mu.Lock()
			defer mu.Unlock()
			return res
		}
	}
	if cfg.KeepSenderOpen {
		x.CloseSender()
	}
	mu.Lock()
	defer mu.Unlock()
	return res
}

var xferSeq atomic.Int64

// GoroutineDump returns the stacks (pprof debug=1 format, grouped) of the
// goroutines that carry the pprof label xfer=<label>, i.e. the goroutines of
// one transfer and everything they spawned.
func GoroutineDump(label string) string {
	var buf bytes.Buffer
	_ = pprof.Lookup("goroutine").WriteTo(&buf, 1)
	parts := strings.Split(buf.String(), "\n\n")
	var keep []string
	needle := fmt.Sprintf("\"xfer\":\"%s\"", label)
	for _, p := range parts {
		if !strings.Contains(p, needle) {
			continue
		}
		var lines []string
		for _, ln := range strings.Split(p, "\n") {
			if strings.HasPrefix(ln, "#") && !strings.Contains(ln, "labels") {
				// keep only the symbolised frames of the repository
				if strings.Contains(ln, "sheerbytes/internal/") || strings.Contains(ln, "quic-go.(*") {
					f := strings.Fields(ln)
					if len(f) >= 3 {
						lines = append(lines, "  "+strings.Join(f[2:], " "))
					}
				}
				continue
			}
			if strings.Contains(ln, "labels") {
				lines = append(lines, ln)
			}
		}
		if len(lines) > 10 {
			lines = lines[:10]
		}
		keep = append(keep, strings.Join(lines, "\n"))
		if len(keep) >= 16 {
			break
		}
	}
	return strings.Join(keep, "\n--\n")
}

// TempDir makes a scratch directory under base.
func TempDir(base, pattern string) string {
	d, err := os.MkdirTemp(base, pattern)
	if err != nil {
		panic(err)
	}
	return d
}
