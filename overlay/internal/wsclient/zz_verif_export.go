//go:build verif

package wsclient

// Shim for the runtime monitors in /verif (compiled in with -tags verif only).

import (
	"context"
	"net"
)

// VerifSetNetDialContext makes the package's dialer open its TCP connections
// through fn (nil restores the default). Everything above the net.Conn – Dial,
// ReadLoop, Send, the send queue, writeLoop, Close – stays the repository's
// code; the harness uses this to put a net.Conn wrapper underneath that counts
// the frames written and can stall Write for a while (a link that is briefly
// not drained). Call it before the first Dial of the process.
func VerifSetNetDialContext(fn func(ctx context.Context, network, addr string) (net.Conn, error)) {
	dialer.NetDialContext = fn
}
