#!/bin/sh
# setup_cmd: locate the toolchain, warm the Go build cache (plain and -race
# harness builds from /repo's working tree with hooks on), offline.
set -e
cd "$(dirname "$0")"
python3 - <<'PY'
import sys, os
sys.path.insert(0, os.getcwd())
from vlib import core
s = core.Scratch("setup")
try:
    core.build(s, race=False, targets=["./cmd/verifharness", "./cmd/thru", "./cmd/thruserv"])
    core.build(s, race=True, targets=["./cmd/verifharness"])
    print("setup ok: toolchain", core.go_cmd()[0])
except core.BuildError as ex:
    print("setup failed:", ex)
    sys.exit(1)
PY
