#!/usr/bin/env python3
"""usage: [VERIF_FOCUS=c0,c15,e2e] [VERIF_REPO=...] tools/dbg.py [--race] <harness-cmd> [tier] [seed]
Builds the harness from the current trees into a scratch dir and runs one harness command
(e.g. c03dbg with VERIF_CASE=... VERIF_REPEAT=...), printing its stdout; scratch removed afterwards."""
import os, subprocess, sys
sys.path.insert(0, os.path.join(os.path.dirname(os.path.abspath(__file__)), ".."))
from vlib import core
args = [a for a in sys.argv[1:] if a != "--race"]
race = "--race" in sys.argv
cmd = args[0]; tier = args[1] if len(args) > 1 else "quick"; seed = args[2] if len(args) > 2 else "1"
scratch = core.Scratch("dbg")
try:
    bindir = core.build(scratch, race=race, targets=["./cmd/verifharness", "./cmd/thru", "./cmd/thruserv"])
    work = scratch.path("work"); os.makedirs(work, exist_ok=True)
    argv = [os.path.join(bindir, "verifharness"), cmd, "-tier", tier, "-seed", seed, "-out", scratch.path("r.json"),
            "-work", work, "-bindir", bindir, "-stage", "dbg"]
    rc = subprocess.run(argv).returncode
    if os.environ.get("DBG_KEEP"): import shutil; shutil.copy(scratch.path("r.json"), os.environ["DBG_KEEP"])
    print("rc", rc)
finally:
    scratch.cleanup() if hasattr(scratch, "cleanup") else None
