#!/usr/bin/env python3
"""usage: tools/import_seed.py Cxx a|b [dest-letter]  -- verify a sub-agent's seeded change (tools/verify_seed.sh) and,
if confirmed, keep it as /verif/seeded/Cxx-<v>/ (patch.diff, demo/, NOTES.md, meta.json)."""
import json, os, re, shutil, subprocess, sys
P, V = sys.argv[1], sys.argv[2]
D = sys.argv[3] if len(sys.argv) > 3 else V  # round 2 results a/b are kept as -c/-d
src = "/tmp/mut/%s_result/%s" % (P, V)
out = subprocess.run(["/verif/tools/verify_seed.sh", P, V], capture_output=True, text=True, errors="replace").stdout
m = re.search(r"RESULT \S+: unchanged_rc=(\d+) patched_rc=(\d+) tests_with_patch=(\w+)", out)
print(out[-900:])
if not m:
    print("NOT CONFIRMED (no result line)"); sys.exit(1)
a, b, t = int(m.group(1)), int(m.group(2)), m.group(3)
if a != 0 or b == 0 or t != "pass":
    print("NOT CONFIRMED: unchanged_rc=%d patched_rc=%d tests=%s" % (a, b, t)); sys.exit(1)
dst = "/verif/seeded/%s-%s" % (P, D)
shutil.rmtree(dst, ignore_errors=True)
os.makedirs(dst)
shutil.copy(os.path.join(src, "patch.diff"), dst)
shutil.copytree(os.path.join(src, "demo"), os.path.join(dst, "demo"))
notes = open(os.path.join(src, "NOTES.md"), errors="replace").read() if os.path.exists(os.path.join(src, "NOTES.md")) else ""
open(os.path.join(dst, "NOTES.md"), "w").write(notes)
files = re.findall(r"^\+\+\+ b/(\S+)", open(os.path.join(dst, "patch.diff"), errors="replace").read(), re.M)
meta = {
    "id": "%s-%s" % (P, D), "property": P, "origin": "fresh sub-agent given only the property text and its own worktree",
    "files_changed": files,
    "needs_to_manifest": re.sub(r"\s+", " ", notes)[:600],
    "confirmed": {"demo_on_unchanged_code": "pass (rc 0)", "repo_test_suite_with_patch": "pass", "demo_with_patch": "fail (rc %d)" % b,
                  "how": "tools/verify_seed.sh %s %s (runs the RUN.txt commands in the sub-agent's worktree with and without patch.diff, plus go build and the repository test suite with the patch)" % (P, V)},
}
json.dump(meta, open(os.path.join(dst, "meta.json"), "w"), indent=1)
print("IMPORTED", dst)
