#!/bin/sh
# For every "fixed:" line of KNOWN_FINDINGS.txt: revert that commit on a scratch worktree of /repo
# and run the property's quick check against it. Prints CAUGHT/MISSED per line.
# usage: tools/revert_runs.sh [property-filter-regex]
cd "$(dirname "$0")/.."
FILTER=${1:-.}
grep '^fixed:' KNOWN_FINDINGS.txt | grep -E "$FILTER" | while read -r _ prop hash rest; do
  P=${prop#property=}
  W=$(mktemp -d /tmp/revert-XXXXXX)
  rmdir "$W"
  git -C /repo worktree add -q --detach "$W" HEAD >/dev/null 2>&1 || { echo "$P $hash: worktree failed"; continue; }
  if ! git -C "$W" revert -n "$hash" >/dev/null 2>&1; then
    echo "$P $hash: REVERT-CONFLICT (later commits touch the same lines)"
  else
    OUT=$(VERIF_REPO="$W" ./check "$P" quick 2>/dev/null)
    RC=$?
    KEYS=$(echo "$OUT" | grep -o 'key=[^ ]*' | sort -u | head -4 | tr '\n' ' ')
    case $RC in 1) V=CAUGHT;; 0) V=MISSED;; *) V="rc=$RC";; esac
    echo "$P $hash: $V $KEYS"
  fi
  git -C /repo worktree remove --force "$W" >/dev/null 2>&1
  rm -rf "$W"
done
