#!/usr/bin/env python3
"""Fill DESIGN.md section 10.2 from seeded/revert_runs.txt (output of tools/revert_runs.sh)."""
import os, re, subprocess, sys
ROOT = os.path.dirname(os.path.dirname(os.path.abspath(__file__)))
rows = []
for ln in open(os.path.join(ROOT, "seeded", "revert_runs.txt")):
    m = re.match(r"(C\d\d) (\w+): (\S+)\s*(.*)", ln.strip())
    if not m:
        continue
    prop, h, verdict, rest = m.groups()
    subj = subprocess.run(["git", "-C", "/repo", "log", "-1", "--format=%s", h], capture_output=True, text=True).stdout.strip()
    keys = ", ".join("`%s`" % k[4:][:70] for k in rest.split() if k.startswith("key="))[:260]
    if verdict.startswith("REVERT"):
        verdict, keys = "revert conflicts", "later commits touch the same lines"
    rows.append("| %s | %s | %s | %s | %s |" % (prop, h, subj.replace("|", "/")[:110], verdict, keys))
table = "| property | commit | subject | quick check on the tree without it | first keys |\n|---|---|---|---|---|\n" + "\n".join(rows) + "\n"
p = os.path.join(ROOT, "DESIGN.md")
s = open(p).read()
a, b = "<!-- REVERT-TABLE-BEGIN -->", "<!-- REVERT-TABLE-END -->"
i, j = s.index(a), s.index(b)
s = s[: i + len(a)] + "\n" + table + s[j:]
open(p, "w").write(s)
print("DESIGN.md updated: %d reverts" % len(rows))
