#!/bin/sh
# usage: tools/round2.sh Cxx  -- import round-2 results a,b of a property as seeded/Cxx-c, Cxx-d and run its quick check against each
cd "$(dirname "$0")/.."
P=$1; L1=${2:-c}; L2=${3:-d}
python3 tools/import_seed.py $P a $L1 2>&1 | tail -2
python3 tools/import_seed.py $P b $L2 2>&1 | tail -2
[ -d seeded/$P-$L1 ] && python3 tools/run_seeded.py $P-$L1 2>&1 | tail -1
[ -d seeded/$P-$L2 ] && python3 tools/run_seeded.py $P-$L2 2>&1 | tail -1
