#!/bin/sh
# usage: tools/round2.sh Cxx  -- import round-2 results a,b of a property as seeded/Cxx-c, Cxx-d and run its quick check against each
cd "$(dirname "$0")/.."
P=$1
python3 tools/import_seed.py $P a c 2>&1 | tail -2
python3 tools/import_seed.py $P b d 2>&1 | tail -2
[ -d seeded/$P-c ] && python3 tools/run_seeded.py $P-c 2>&1 | tail -1
[ -d seeded/$P-d ] && python3 tools/run_seeded.py $P-d 2>&1 | tail -1
