#!/usr/bin/env python3
"""Run checks against seeded changes.

usage: tools/run_seeded.py <seeded-id>|all [--tier quick|thorough] [--props C01,C03] [--seed N]

For each /verif/seeded/<id>/ (patch.diff + meta.json {"property": "Cnn", ...}) a scratch copy
of /repo is made under $TMPDIR, the patch is applied there and `VERIF_REPO=<copy> ./check <prop> <tier>`
is run (the repository itself is never touched). Prints one line per (seeded change, check):
CAUGHT (exit 1 + VIOLATION keys) / MISSED (exit 0) / INCONCLUSIVE (exit 2), and appends the
outcome to /verif/seeded/<id>/runs.jsonl.
"""
import json, os, re, shutil, subprocess, sys, tempfile, time

VERIF = os.path.dirname(os.path.dirname(os.path.abspath(__file__)))

def main():
    args = sys.argv[1:]
    if not args:
        print(__doc__); return 2
    which = args[0]
    tier = "quick"; props = None; seed = os.environ.get("VERIF_SEED", "1")
    i = 1
    while i < len(args):
        if args[i] == "--tier": tier = args[i+1]; i += 2
        elif args[i] == "--props": props = args[i+1].split(","); i += 2
        elif args[i] == "--seed": seed = args[i+1]; i += 2
        else: i += 1
    ids = sorted(os.listdir(os.path.join(VERIF, "seeded"))) if which == "all" else [which]
    rc_all = 0
    for sid in ids:
        d = os.path.join(VERIF, "seeded", sid)
        if not os.path.exists(os.path.join(d, "patch.diff")):
            continue
        meta = json.load(open(os.path.join(d, "meta.json")))
        plist = props or [meta["property"]]
        scratch = tempfile.mkdtemp(prefix="seeded-%s-" % sid)
        repo = os.path.join(scratch, "repo")
        try:
            subprocess.run(["rsync", "-a", "--exclude", ".git", "/repo/", repo + "/"], check=True)
            r = subprocess.run(["patch", "-p1", "-s", "-d", repo, "-i", os.path.join(d, "patch.diff")], capture_output=True, text=True)
            if r.returncode != 0:
                print("%s: PATCH DOES NOT APPLY: %s" % (sid, (r.stdout + r.stderr)[:300])); rc_all = 1; continue
            for prop in plist:
                env = dict(os.environ, VERIF_REPO=repo, VERIF_SEED=str(seed))
                t0 = time.time()
                r = subprocess.run([os.path.join(VERIF, "check"), prop, tier], cwd=VERIF, env=env, capture_output=True, text=True)
                keys = sorted(set(re.findall(r"^VIOLATION property=\S+ replay=\S+ key=(\S+)", r.stdout, re.M)))
                verdict = {0: "MISSED", 1: "CAUGHT", 2: "INCONCLUSIVE"}.get(r.returncode, "rc=%d" % r.returncode)
                incon = re.findall(r"^INCONCLUSIVE.*$", r.stdout, re.M)[:2]
                print("%s: %s %s %s %.0fs keys=%s %s" % (sid, prop, tier, verdict, time.time() - t0, keys[:6], incon))
                with open(os.path.join(d, "runs.jsonl"), "a") as fh:
                    fh.write(json.dumps({"check": prop, "tier": tier, "seed": int(seed), "verdict": verdict, "keys": keys, "wall_s": round(time.time() - t0)}) + "\n")
        finally:
            shutil.rmtree(scratch, ignore_errors=True)
    return rc_all

if __name__ == "__main__":
    sys.exit(main())
