#!/usr/bin/env python3
"""Regenerate the table of DESIGN.md section 10.1 from /verif/seeded/*/ (meta.json, NOTES.md, runs.jsonl).
Usage: tools/seeded_table.py            # prints the table
       tools/seeded_table.py --write    # replaces the text between the SEEDED-TABLE markers in DESIGN.md"""
import json, os, re, sys
ROOT = os.path.dirname(os.path.dirname(os.path.abspath(__file__)))
SD = os.path.join(ROOT, "seeded")

def title(d):
    p = os.path.join(SD, d, "NOTES.md")
    if os.path.exists(p):
        for line in open(p, errors="replace"):
            line = line.strip()
            if line.startswith("#"):
                t = line.lstrip("# ").strip()
                t = re.sub(r"^(C\d\d\s*/?\s*[a-d]\s*[—–-]+\s*|C\d\d seeded change\s*\(?[a-dA-D]\)?\s*[:—–-]*\s*|Seeded change [A-D]\s*[—–-]+\s*|Change [A-D]\s*[—–-]+\s*)", "", t, flags=re.I)
                return t.replace("|", "/")
    return ""

rows = []
for d in sorted(os.listdir(SD)):
    mp = os.path.join(SD, d, "meta.json")
    if not os.path.exists(mp):
        continue
    m = json.load(open(mp))
    runs = []
    rp = os.path.join(SD, d, "runs.jsonl")
    if os.path.exists(rp):
        runs = [json.loads(l) for l in open(rp) if l.strip()]
    # last run per (check, tier)
    last = {}
    for r in runs:
        last[(r.get("check"), r.get("tier"))] = r
    cells = []
    for (chk, tier), r in sorted(last.items()):
        keys = r.get("keys") or []
        k = ", ".join("`%s`" % x[:70] for x in keys[:2])
        cells.append("%s %s: **%s** %s" % (chk, tier, r.get("verdict"), k))
    files = ", ".join(os.path.basename(f) for f in m.get("files_changed", []))
    rows.append("| %s | %s | %s | %s |" % (d, files, title(d), "<br>".join(cells) or "not run"))

table = "| seed | file(s) | change | last check run (verdict, first violation keys) |\n|---|---|---|---|\n" + "\n".join(rows) + "\n"
if "--write" in sys.argv:
    p = os.path.join(ROOT, "DESIGN.md")
    s = open(p).read()
    a, b = "<!-- SEEDED-TABLE-BEGIN -->", "<!-- SEEDED-TABLE-END -->"
    i, j = s.index(a), s.index(b)
    s = s[: i + len(a)] + "\n" + table + s[j:]
    open(p, "w").write(s)
    print("DESIGN.md updated: %d seeds" % len(rows))
else:
    print(table)
