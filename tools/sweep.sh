#!/bin/sh
# usage: tools/sweep.sh <tier> <seed> [props...]   -- runs the checks and prints one line per property
cd "$(dirname "$0")/.."
TIER=${1:-quick}; SEED=${2:-1}; shift 2 2>/dev/null
PROPS=${*:-C01 C02 C03 C04 C05 C06 C07 C08 C09 C10 C11 C12 C13 C14 C15 C16 C17 C18 C19}
for P in $PROPS; do
  T0=$(date +%s)
  OUT=$(VERIF_SEED=$SEED ./check $P $TIER 2>/dev/null); RC=$?
  T1=$(date +%s)
  echo "$P tier=$TIER seed=$SEED rc=$RC $((T1-T0))s $(echo "$OUT" | grep -E '^(VIOLATION|INCONCLUSIVE)' | cut -c1-200 | head -3 | tr '\n' '|')"
done
