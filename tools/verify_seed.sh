#!/bin/sh
# usage: tools/verify_seed.sh Cxx a|b   -- confirms a sub-agent's seeded change in its own worktree:
#  (1) unchanged code: demo passes; (2) patch applies, builds, repo test suite passes, demo fails.
P=$1; V=$2
W=/tmp/mut/$P; R=/tmp/mut/${P}_result/$V
export GOFLAGS=-mod=mod GOPROXY=off
GO=/root/go/pkg/mod/golang.org/toolchain@v0.0.1-go1.24.0.linux-amd64/bin/go
cd "$W" || exit 3
git checkout -q -- . ; git clean -fdq
# commands = indented lines of RUN.txt that look like shell commands
CMDS=$(grep -E '^\s+(cp |mkdir |\$GO |go |rm |sh |bash |\./|cd |chmod )' "$R/demo/RUN.txt" | sed 's/^\s*//')
run_demo() { ( export GO; echo "$CMDS" | sh -e ) > /tmp/verify_seed_$$.out 2>&1; RC=$?; tail -${TAILN:-6} /tmp/verify_seed_$$.out | cut -c1-220; rm -f /tmp/verify_seed_$$.out; return $RC; }
echo "== [$P/$V] demo on unchanged code (must pass)"
run_demo; A=$?
git checkout -q -- . ; git clean -fdq
echo "== [$P/$V] apply patch, build, repo tests (must pass)"
git apply "$R/patch.diff" || { echo "PATCH DOES NOT APPLY"; exit 1; }
$GO build ./... || { echo "BUILD FAILS"; git checkout -q -- .; exit 1; }
T=$($GO test -vet=off -count=1 ./... 2>&1 | grep -v "no test files" | grep -v "^ok" | head -5)
[ -n "$T" ] && echo "REPO TESTS FAIL WITH PATCH: $T"
echo "== [$P/$V] demo with patch (must fail)"
run_demo; B=$?
git checkout -q -- . ; git clean -fdq
echo "RESULT $P/$V: unchanged_rc=$A patched_rc=$B tests_with_patch=$([ -z "$T" ] && echo pass || echo FAIL)"
