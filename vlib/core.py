"""Orchestrator core for the runtime-monitoring checks (stdlib only).

Builds the harness from /repo's current working tree (hooks on, overlay +
scratch modfile, nothing written into /repo), runs the harness stages of a
property, matches violations against KNOWN_FINDINGS.txt, writes evidence and
replay files and prints the verdict lines.
"""
import atexit
import json
import os
import re
import shutil
import subprocess
import sys
import tempfile
import time

VERIF = os.path.dirname(os.path.dirname(os.path.abspath(__file__)))
REPO = os.environ.get("VERIF_REPO", "/repo")
OVERLAY = os.path.join(VERIF, "overlay")
TOOLCHAIN = "/root/go/pkg/mod/golang.org/toolchain@v0.0.1-go1.24.0.linux-amd64/bin/go"
PORCUPINE = "github.com/anishathalye/porcupine@v1.3.0"


def log(*a):
    print("[check]", *a, file=sys.stderr, flush=True)


def go_cmd():
    """Return (argv0, env) for the Go toolchain that can build /repo offline."""
    env = dict(os.environ)
    env["GOFLAGS"] = "-mod=mod"
    env["GOPROXY"] = "off"
    env.pop("GOSUMDB", None)
    if os.path.exists(TOOLCHAIN):
        env["GOTOOLCHAIN"] = "local"
        env["GONOSUMDB"] = "*"
        env["GONOSUMCHECK"] = "1"
        env["GOFLAGS"] = "-mod=mod"
        return TOOLCHAIN, env
    env.pop("GOTOOLCHAIN", None)
    return "go", env


class Scratch:
    def __init__(self, prop):
        base = os.environ.get("VERIF_SCRATCH_BASE") or tempfile.gettempdir()
        self.dir = tempfile.mkdtemp(prefix="verif-%s-" % prop, dir=base)
        atexit.register(self.cleanup)

    def cleanup(self):
        if os.environ.get("VERIF_KEEP_SCRATCH"):
            log("keeping scratch", self.dir)
            return
        shutil.rmtree(self.dir, ignore_errors=True)

    def path(self, *p):
        return os.path.join(self.dir, *p)


def make_overlay(scratch):
    """overlay.json mapping /repo/<rel> -> /verif/overlay/<rel>; refuses to mask existing files."""
    repl = {}
    for root, _dirs, files in os.walk(OVERLAY):
        for f in files:
            if not f.endswith(".go"):
                continue
            # VERIF_FOCUS=c12[,c13]: build only main.go + that property's harness files
            # (isolates a contributor from other contributors' half-written files)
            focus = os.environ.get("VERIF_FOCUS")
            if focus and os.path.basename(root) == "verifharness" and f != "main.go":
                if not any(f.startswith(p.strip().lower()) for p in focus.split(",")):
                    continue
            src = os.path.join(root, f)
            rel = os.path.relpath(src, OVERLAY)
            dst = os.path.join(REPO, rel)
            if os.path.exists(dst):
                raise SystemExit("overlay would mask existing repo file %s" % dst)
            repl[dst] = src
    p = scratch.path("overlay.json")
    with open(p, "w") as fh:
        json.dump({"Replace": repl}, fh)
    return p


def make_modfile(scratch):
    go, env = go_cmd()
    mod = scratch.path("go.mod")
    shutil.copy(os.path.join(REPO, "go.mod"), mod)
    shutil.copy(os.path.join(REPO, "go.sum"), scratch.path("go.sum"))
    r = subprocess.run([go, "mod", "edit", "-modfile=" + mod, "-require=" + PORCUPINE],
                       cwd=REPO, env=env, capture_output=True, text=True)
    if r.returncode != 0:
        raise BuildError("go mod edit failed: " + r.stderr)
    return mod


class BuildError(Exception):
    pass


def build(scratch, race=False, targets=("./cmd/verifharness",), tags="verif", suffix=None):
    """Build targets from /repo's working tree into scratch/bin[-race]/."""
    go, env = go_cmd()
    if not os.path.exists(scratch.path("overlay.json")):
        make_overlay(scratch)
        make_modfile(scratch)
    outdir = scratch.path("bin-race" if race else "bin") if suffix is None else scratch.path(suffix)
    os.makedirs(outdir, exist_ok=True)
    cmd = [go, "build"]
    if race:
        cmd.append("-race")
    if tags:
        cmd += ["-tags", tags]
    cmd += ["-modfile=" + scratch.path("go.mod"), "-overlay=" + scratch.path("overlay.json"),
            "-o", outdir + os.sep] + list(targets)
    t0 = time.time()
    r = subprocess.run(cmd, cwd=REPO, env=env, capture_output=True, text=True)
    if r.returncode != 0:
        raise BuildError("build failed (%s):\n%s\n%s" % (" ".join(cmd), r.stdout, r.stderr))
    log("built %s%s in %.1fs" % (",".join(targets), " (race)" if race else "", time.time() - t0))
    return outdir


def load_known():
    """Parse KNOWN_FINDINGS.txt -> {prop: {key: text}} (only 'known:' entries)."""
    out = {}
    p = os.path.join(VERIF, "KNOWN_FINDINGS.txt")
    if not os.path.exists(p):
        return out
    for line in open(p):
        line = line.strip()
        m = re.match(r"known:\s+property=(C\d+)\s+key=(\S+)\s*(.*)$", line)
        if m:
            out.setdefault(m.group(1), {})[m.group(2)] = m.group(3)
    return out


def run_stage(scratch, bindir, cmd, tier, seed, stage, race=False, extra_args=(), env_extra=None, timeout=3000):
    """Run one harness stage; returns parsed report dict or a synthetic one on crash."""
    out = scratch.path("report-%s.json" % stage)
    work = scratch.path("work-%s" % stage)
    os.makedirs(work, exist_ok=True)
    argv = [os.path.join(bindir, "verifharness"), cmd, "-tier", tier, "-seed", str(seed), "-out", out,
            "-work", work, "-bindir", bindir, "-stage", stage]
    if race:
        argv.append("-race")
    argv += list(extra_args)
    env = dict(os.environ)
    env["GORACE"] = "halt_on_error=0 log_path=%s" % scratch.path("race-%s" % stage)
    env["GOTRACEBACK"] = "all"
    if env_extra:
        env.update(env_extra)
    logf = scratch.path("stage-%s.log" % stage)
    t0 = time.time()
    with open(logf, "w") as lf:
        try:
            r = subprocess.run(argv, stdout=lf, stderr=subprocess.STDOUT, env=env, timeout=timeout)
            rc = r.returncode
        except subprocess.TimeoutExpired:
            rc = -999
    dt = time.time() - t0
    tail = ""
    try:
        with open(logf, errors="replace") as lf:
            data = lf.read()
            tail = data[-6000:]
    except OSError:
        pass
    rep = None
    if os.path.exists(out):
        try:
            rep = json.load(open(out))
        except Exception as ex:  # noqa
            rep = None
    races = collect_races(scratch, stage)
    if rep is None:
        rep = {"property": cmd, "stage": stage, "evaluations": 0, "distinct_keys": [], "rule": "", "samples": [],
               "violations": [], "inconclusive": [], "no_verdict": 0, "extra": {}, "min_met": False,
               "min_note": "harness stage %s produced no report (rc=%s)" % (stage, rc), "crashed": True,
               "crash_tail": tail, "rc": rc}
    for k in ("distinct_keys", "samples", "violations", "inconclusive"):
        if rep.get(k) is None:
            rep[k] = []
    if rep.get("extra") is None:
        rep["extra"] = {}
    rep["stage_wall_s"] = dt
    rep["races"] = races
    rep["log_tail"] = tail[-1500:]
    log("stage %s rc=%s %.1fs evals=%s distinct=%s viol=%s inconcl=%s" % (
        stage, rc, dt, rep.get("evaluations"), len(rep.get("distinct_keys", [])), len(rep.get("violations", [])),
        len(rep.get("inconclusive", []))))
    return rep


def collect_races(scratch, stage):
    """Parse race detector logs: de-duplicate by outermost repo frame pair."""
    res = {}
    d = scratch.dir
    for f in os.listdir(d):
        if not f.startswith("race-%s" % stage):
            continue
        try:
            txt = open(os.path.join(d, f), errors="replace").read()
        except OSError:
            continue
        for block in txt.split("WARNING: DATA RACE")[1:]:
            frames = [fr[:-2] if fr.endswith("()") else fr
                      for fr in re.findall(r"^\s+(github\.com/sheerbytes/sheerbytes/\S+)", block, re.M)]
            files = re.findall(r"^\s+(/repo/[^\s:]+):\d+", block, re.M)
            repo_frames = [fr for fr in frames if "/verifkit" not in fr and "/cmd/verifharness" not in fr]
            key = "|".join(sorted(set(repo_frames[:2] + repo_frames[-2:]))) or "harness-only"
            ent = res.setdefault(key, {"count": 0, "files": sorted(set(files))[:6], "sample": block[:1500]})
            ent["count"] += 1
    return res


def sanitize(s):
    return re.sub(r"[^A-Za-z0-9._-]+", "_", s)[:80]


def finish(prop, tier, seed, level, reports, t0, assumptions, race_is_violation=False, exhaustive=None):
    """Merge stage reports, match known findings, write evidence + replays, print verdict, return exit code."""
    known = load_known().get(prop, {})
    evaluations = sum(r.get("evaluations", 0) for r in reports)
    distinct = set()
    for r in reports:
        distinct.update("%s" % k for k in r.get("distinct_keys", []))
    samples = []
    for r in reports:
        samples += r.get("samples", [])[:4]
    rule = " || ".join(dict.fromkeys(r.get("rule", "") for r in reports if r.get("rule")))
    violations = []
    inconclusive = []
    min_ok = True
    min_notes = []
    races = {}
    for r in reports:
        violations += [dict(v, stage=r.get("stage")) for v in r.get("violations", [])]
        inconclusive += r.get("inconclusive", [])
        if not r.get("min_met", True):
            min_ok = False
            min_notes.append("%s: %s" % (r.get("stage"), r.get("min_note")))
        for k, v in r.get("races", {}).items():
            ent = races.setdefault(k, {"count": 0, "files": v["files"], "sample": v["sample"]})
            ent["count"] += v["count"]
    if race_is_violation:
        for k, v in races.items():
            if k == "harness-only":
                continue
            violations.append({"key": "race:" + sanitize(k), "what": "data race reported by the race detector in %s" % k,
                               "case": {"frames": k}, "detail": v, "stage": "race"})

    reobserved = {}
    unlisted = []
    for v in violations:
        if v["key"] in known:
            reobserved[v["key"]] = reobserved.get(v["key"], 0) + 1
        else:
            unlisted.append(v)

    os.makedirs(os.path.join(VERIF, "replays", prop), exist_ok=True)
    lines = []
    seen_keys = {}
    for v in unlisted:
        n = seen_keys.get(v["key"], 0)
        seen_keys[v["key"]] = n + 1
        if n >= 2 or len(seen_keys) > 12:
            continue
        path = os.path.join(VERIF, "replays", prop, "%s-seed%d-%d.json" % (sanitize(v["key"]), seed, n))
        with open(path, "w") as fh:
            json.dump({"property": prop, "tier": tier, "seed": seed, "violation": v}, fh, indent=1, default=str)
        if n == 0:
            lines.append("VIOLATION property=%s replay=%s key=%s :: %s" % (prop, path, v["key"], str(v.get("what", ""))[:400]))
    for k, text in sorted(known.items()):
        n = reobserved.get(k, 0)
        lines.append("KNOWN-FINDING: property=%s key=%s %s [%s]" % (
            prop, k, text, "re-observed %dx this run" % n if n else "not exercised in this run"))
    for k, v in races.items():
        if not race_is_violation and k != "harness-only":
            lines.append("RACE-DIAGNOSTIC property=%s frames=%s count=%d" % (prop, k, v["count"]))

    extra = {}
    for r in reports:
        extra[r.get("stage", "?")] = r.get("extra", {})
    coverage = {
        "evaluations": int(evaluations),
        "distinct_nontrivial": len(distinct),
        "rule": rule,
        "samples": samples[:8] if samples else [],
        "no_verdict": sum(r.get("no_verdict", 0) for r in reports),
        "inconclusive": len(inconclusive),
        "inconclusive_samples": inconclusive[:5],
        "known_findings_reobserved": reobserved,
        "unlisted_violation_keys": sorted(seen_keys),
        "race_diagnostics": {k: v["count"] for k, v in races.items()},
        "stages": extra,
        "min_observation_met": min_ok,
        "min_observation_notes": min_notes,
        "toolchain": go_cmd()[0],
    }
    if exhaustive is not None:
        coverage["exhaustive"] = bool(exhaustive)
    ev = {
        "property_id": prop,
        "tier": tier,
        "seed": int(seed),
        "level": level,
        "coverage": coverage,
        "assumptions": assumptions,
        "wall_s": round(time.time() - t0, 2),
        "violations": len(unlisted),
    }
    # evidence/ describes /repo; a run against another tree (VERIF_REPO: seeded
    # changes, reverted repairs) leaves it alone
    evdir = os.path.join(VERIF, "evidence")
    if os.path.realpath(REPO) != "/repo":
        import tempfile
        evdir = os.path.join(tempfile.gettempdir(), "verif-evidence-of-other-trees")
    os.makedirs(evdir, exist_ok=True)
    evp = os.path.join(evdir, "%s.json" % prop)
    with open(evp + ".tmp", "w") as fh:
        json.dump(ev, fh, indent=1, default=str)
    os.replace(evp + ".tmp", evp)

    if not coverage["samples"]:
        # never write an evidence file without samples: fall back to the descriptors of explored cases
        coverage["samples"] = [{"case_key": k} for k in sorted(distinct)[:5]]
        with open(evp + ".tmp", "w") as fh:
            json.dump(ev, fh, indent=1, default=str)
        os.replace(evp + ".tmp", evp)
    for l in lines:
        print(l)
    print("SUMMARY property=%s tier=%s seed=%d evaluations=%d distinct_nontrivial=%d unlisted_violations=%d known_reobserved=%d inconclusive=%d wall=%.0fs" % (
        prop, tier, seed, evaluations, len(distinct), len(unlisted), sum(reobserved.values()), len(inconclusive), time.time() - t0))
    if unlisted:
        return 1
    crashed = [r for r in reports if r.get("crashed")]
    if crashed or not min_ok:
        for r in crashed:
            print("INCONCLUSIVE property=%s stage %s crashed or produced no report (rc=%s); log tail:\n%s" % (
                prop, r.get("stage"), r.get("rc"), r.get("crash_tail", "")[-3000:]))
        for n in min_notes:
            print("INCONCLUSIVE property=%s %s" % (prop, n))
        return 2
    return 0
