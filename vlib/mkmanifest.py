#!/usr/bin/env python3
"""Regenerate /verif/MANIFEST.json from vlib/props.py (run from /verif)."""
import json
import os
import subprocess
import sys

sys.path.insert(0, os.path.dirname(os.path.dirname(os.path.abspath(__file__))))
from vlib.props import PROPS, META  # noqa: E402

VERIF = os.path.dirname(os.path.dirname(os.path.abspath(__file__)))
ALL = [json.loads(l)["id"] for l in open(os.path.join(VERIF, "properties.jsonl"))]


def hook_commits():
    try:
        out = subprocess.run(["git", "-C", "/repo", "log", "--format=%H %s"], capture_output=True, text=True).stdout
        return [l.split()[0] for l in out.splitlines() if l.split(" ", 1)[1].startswith("verif hooks")]
    except Exception:
        return []


def main():
    checks = []
    for pid in ALL:
        if pid not in PROPS:
            continue
        p = PROPS[pid]
        meta = META[pid]
        checks.append({
            "property_id": pid,
            "quick_cmd": "./check %s quick" % pid,
            "thorough_cmd": "./check %s thorough" % pid,
            "evidence_file": "/verif/evidence/%s.json" % pid,
            "replay_cmd_template": "./check --replay {path}",
            "engine": "verifharness",
            "level_claimed": {"category": p["level"], "text": meta["text"], "design_ref": meta.get("design_ref", "DESIGN.md §4 " + pid)},
            "level_note": meta["note"],
            "technique": meta["technique"],
        })
    na = [{"property_id": pid, "reason": META.get(pid, {}).get("na_reason", "check not built yet (work in progress; see DESIGN.md §8)")}
          for pid in ALL if pid not in PROPS]
    man = {
        "version": 1,
        "setup_cmd": "./setup.sh",
        "hooks": {
            "guard": "verif",
            "enable": "go build -tags verif -modfile=<scratch>/go.mod -overlay=<scratch>/overlay.json (cwd /repo); hooks live in /repo/internal/verifhook and named call sites; harness sources are overlaid from /verif/overlay",
            "baseline_off_cmd": "cd /repo && GOFLAGS=-mod=mod go test -json -vet=off -count=1 -timeout 25m ./...",
            "source_commits": hook_commits(),
            "add_only": True,
        },
        "engines": [
            {"name": "verifharness", "path": "/verif/overlay/cmd/verifharness", "serves_properties": [c["property_id"] for c in checks],
             "kind_free_text": "Go harness overlaid onto /repo at build time (tag verif): drives the real library entry points over loopback QUIC / the real binaries, with monitors over hook event logs, recorded histories and file-system state; race detector builds"},
            {"name": "check", "path": "/verif/check", "serves_properties": [c["property_id"] for c in checks],
             "kind_free_text": "python3 orchestrator: build from /repo's working tree, run stages, match KNOWN_FINDINGS.txt, write evidence and replay files"},
        ],
        "checks": checks,
        "not_applicable": na,
        "notes": "Runtime monitoring and sanitizers only. Exit 0 held / 1 VIOLATION / 2 INCONCLUSIVE. Known findings: /verif/KNOWN_FINDINGS.txt.",
    }
    with open(os.path.join(VERIF, "MANIFEST.json"), "w") as fh:
        json.dump(man, fh, indent=1)
    print("MANIFEST.json: %d checks, %d not_applicable" % (len(checks), len(na)))


if __name__ == "__main__":
    main()
