PROP = {
    "level": "exploration",
    "stages": [("lib", "c01", False, ()), ("lib-race", "c01", True, ()), ("e2e", "c01e2e", False, ())],
    "binaries": ("./cmd/thru", "./cmd/thruserv"),
    "assumptions": [
        "success is read from the return values of SendManifestMultiStream/RecvManifestMultiStream; digests are taken after both returned and the connections were closed",
        "real loopback QUIC and the repository's mock transport; TURN/STUN paths not driven",
    ],
}
META = {
    "technique": "runtime monitor: digest oracle over real transfers (loopback QUIC, multi-conn, mock) with jittered hooks; race-detector build",
    "text": "Exploration: thousands of real SendManifestMultiStream/RecvManifestMultiStream executions over the mock transport and real loopback QUIC (1-4 connections) across tree shapes, chunk sizes, stream counts, root/scan modes and resume, with seeded delays at the chunk hooks to vary worker/arrival interleavings; on every double success the output tree digest must equal the source digest. Decides the executions produced, not all inputs.",
    "note": "Trusted: the harness tree generator/digest (sha256), return values as the success signal, loopback network. Not driven: TURN/STUN paths, Windows paths.",
}
