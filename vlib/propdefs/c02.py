PROP = {
    "level": "fault_enumeration",
    "stages": [("faults", "c02", False, ()), ("app", "c02app", False, ())],
    "assumptions": [
        "faults are injected by a Conn/Stream decorator on the sender's end of a real loopback QUIC connection at exact byte offsets; the harness closes a side's connection exactly when the real application would (when its transfer function returns)",
        "byte positions come from recording runs of small workloads; data-stream positions depend on which worker took which chunk, unreached positions are counted and carry no verdict",
        "hangs are decided by the bounded-progress rule (watchdog, no stream byte for half the window, canary) and must show again on fresh connections",
        "stage app: the real app.RunSnapshotReceiver runs in a child process against a signaling server and a sending peer played by the harness (the repository's own sender, right join code, one fault on the wire: payload / checksum bit flip, connection aborted or closed inside a payload or between chunks); judged are the PROCESS's end (bounded progress: still running 40 s after the last byte moved, twice) and its exit status against its tree; the sender application and the CLI wrappers are not driven with faults",
    ],
}
META = {
    "technique": "runtime fault injection at enumerated stream byte offsets (Conn decorator) + hook gates forcing racing error paths; state-comparison oracles (tree digest, FileDone records)",
    "text": "Fault enumeration: for recorded small workloads every byte position of every stream in both directions is hit with graceful/abrupt close by either side and context cancel of either side, data-stream bytes get single-bit flips, plus silent loss samples, source shrink/removal and obstructed output paths; racing configurations are repeated under hook gates. After each fault: a side that returns nil must be right (receiver tree identical and complete; sender saw FileDone ok for every file), and both sides must return within the bounded-progress window. A second stage runs the real receiver APPLICATION in a child process against a faulty sending peer: its process must stop, and must not exit 0 with a wrong tree.",
    "note": "Trusted: decorator byte accounting, loopback QUIC semantics of CloseWithError, the digest. Power-loss style faults and mid-packet corruption below QUIC are out of reach.",
}
