PROP = {
    "level": "fault_enumeration",
    "stages": [("faults", "c02", False, ())],
    "assumptions": [
        "faults are injected by a Conn/Stream decorator on the sender's end of a real loopback QUIC connection at exact byte offsets; the harness closes a side's connection exactly when the real application would (when its transfer function returns)",
        "byte positions come from recording runs of small workloads; data-stream positions depend on which worker took which chunk, unreached positions are counted and carry no verdict",
        "hangs are decided by the bounded-progress rule (watchdog, no stream byte for half the window, canary)",
    ],
}
META = {
    "technique": "runtime fault injection at enumerated stream byte offsets (Conn decorator) + hook gates forcing racing error paths; state-comparison oracles (tree digest, FileDone records)",
    "text": "Fault enumeration: for recorded small workloads every byte position of every stream in both directions is hit with graceful/abrupt close by either side and context cancel of either side, data-stream bytes get single-bit flips, plus silent loss samples, source shrink/removal and obstructed output paths; racing configurations are repeated under hook gates. After each fault: a side that returns nil must be right (receiver tree identical and complete; sender saw FileDone ok for every file), and both sides must return within the bounded-progress window.",
    "note": "Trusted: decorator byte accounting, loopback QUIC semantics of CloseWithError, the digest. Power-loss style faults and mid-packet corruption below QUIC are out of reach.",
}
