PROP = {
    "level": "exploration",
    "stages": [("lib", "c03", False, ()), ("e2e", "c03e2e", False, ())],
    "binaries": ("./cmd/thru", "./cmd/thruserv"),
    "assumptions": [
        "liveness is decided as bounded progress: watchdog exceeded, no stream byte for half the window, and a canary transfer completing afterwards",
        "loopback network without loss",
    ],
}
META = {
    "technique": "runtime monitor: bounded-progress watchdog + canary over fault-free real QUIC transfers on a configuration grid and resume histories",
    "text": "Exploration over a bounded grid (files x chunks-per-file x streams x connections x resume), all legal name classes, special shapes and resume histories (partial, complete, late resume report), plus random cases: every fault-free transfer over real loopback QUIC must return nil on both sides within the watchdog and produce the identical tree. Liveness is decided as bounded progress (watchdog, no byte moved for half the window, canary completes).",
    "note": "Trusted: loopback QUIC without loss, the watchdog/canary rule; goroutine scheduling inside quic-go is not steered, diversity comes from repetition, jitter hooks and multi-connection runs.",
}
