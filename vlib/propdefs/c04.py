PROP = {
    "level": "fault_enumeration",
    "stages": [("kill", "c04", False, ()), ("e2e", "c04e2e", False, ())],
    "binaries": ("./cmd/thru", "./cmd/thruserv"),
    "assumptions": [
        "crash = SIGKILL of a real receiver process at hook-chosen points (and sender-side aborts); power loss (torn pages, reordered writes below the page cache) is out of reach",
        "the resumed run fetches the same unchanged source tree (same ids, sizes, chunk size) into the same output directory",
    ],
    "timeout": 3400,
}
META = {
    "technique": "runtime crash injection: SIGKILL of a receiver child at the K-th hit of hook kill sites, then resumed transfer; oracles: exit status, tree digest, FileResumeInfo vs on-disk sidecar",
    "text": "Fault enumeration over crash points: a real receiver process running RecvManifestMultiStream with production options is killed at the K-th hit of each kill site (after chunk write, after bitmap mark, before/after the sidecar rename; immediate and delayed kills, with the periodic flusher running), or the sender aborts; chains of 2-3 interruptions are sampled. After the final resumed run both sides must succeed, the tree digest must equal the source, and the FileResumeInfo captured on the control stream must advertise every chunk the on-disk sidecar marked complete after the last interruption.",
    "note": "Trusted: SIGKILL semantics (page cache survives), the digest, the control-stream capture on the sender side. Not covered: power loss, kills inside quic-go.",
}
