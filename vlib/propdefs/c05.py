PROP = {
    "level": "fault_enumeration",
    "stages": [("kill", "c05", False, ())],
    "assumptions": [
        "crash = SIGKILL of a real receiver process; state is read from disk afterwards with the repository's own LoadSidecar",
        "source content is a PRNG keyed by (file, offset), so a chunk at the wrong offset or of the wrong file cannot compare equal",
        "the workloads contain no external damage to files (that is C06)",
    ],
    "timeout": 3400,
}
META = {
    "technique": "runtime crash injection (SIGKILL at hook sites) with on-disk sidecar-vs-source comparison, plus an in-process invariant monitor inside Sidecar.Flush under jitter",
    "text": "Fault enumeration over kill points of a real receiver process (after write, after mark, around the sidecar rename, delayed kills with the 1 s flusher active): every sidecar that LoadSidecar accepts afterwards must mark only chunks whose bytes in the partial output file equal the source, and a sidecar that had been renamed into place before must still have a valid version on disk. A second monitor runs inside Sidecar.Flush (under the sidecar's own lock) during thousands of in-process resumed transfers with jitter between write, mark and flush.",
    "note": "Trusted: LoadSidecar as the reader of on-disk state, PRNG content uniqueness. Power loss not modelled.",
}
