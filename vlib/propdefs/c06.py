PROP = {
    "level": "exploration",
    "stages": [("tamper", "c06", False, ())],
    "assumptions": [
        "a failure reported by either side is acceptable (fails loudly); only double success with a wrong tree, or a hang, refutes",
        "data-file damage is limited to what the property names: deleted, shortened, or the last chunk recorded as complete damaged",
        "CRC-32C detects every single-bit error, so every single-bit flip of a sidecar must be rejected",
    ],
}
META = {
    "technique": "runtime monitor: exhaustive single-bit/truncation fuzz of LoadSidecar + end-to-end resumed transfers from tampered sidecar/data states over real QUIC with a digest oracle; hook-held sender verification for the repair race",
    "text": "Exploration: (a) every single-bit flip and truncation of valid sidecars and seeded garbage through the real LoadSidecar (no acceptance, no panic); (b) identity mismatches through LoadOrCreateSidecarWithFallback; (c) resumed transfers over real QUIC from each tampered state (sidecar kept/flipped/truncated/garbage/foreign/deleted x data kept/deleted/shortened/last-complete-chunk damaged): double success must mean an identical tree; (d) the same with the sender's verification held past the remaining chunks.",
    "note": "Trusted: the digest oracle, FlushAllFlushers to persist first-run state as the application does on abort. Forged sidecars with a valid checksum are outside the property.",
}
