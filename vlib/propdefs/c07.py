PROP = {
    "level": "exploration",
    "stages": [("hostile", "c07", False, ())],
    "assumptions": [
        "only attacker-chosen strings vary; no symlinks are planted in the output directory",
        "absolute attack paths point into the harness scratch jail",
        "monitor = before/after snapshot of everything around the output directory, and of a second jail around the process's working directory (which is never an output directory); create-then-delete within one run is not seen by this monitor",
        "the working directory is shared by the 16 parallel cases: a change there is attributed by running every case that was in flight (or among the last 16 finished) again alone in a fresh working directory; a change that no case reproduces alone is reported under escape:unattributed:process-working-directory",
        "prior content of the output directory is limited to what an earlier accepted transfer leaves there (regular files, directories, sidecars of the wrong kind or damaged); permissions, full disks and I/O errors are not driven",
    ],
}
META = {
    "technique": "runtime monitor: hostile-sender script against the real receivers with a before/after file-system snapshot of a jail around the output directory and of a jail around the process's working directory",
    "text": "Exploration over attacker strings (parent references, absolute paths, separators smuggled into names/ids, NUL, over-long, seeded segment mixes) placed in manifest.root, item.rel_path (files and directories), item.id, FileBegin.rel_path, the legacy file name and the offered root name, plus well-formed names that make the receiver's own file operations fail (names around NAME_MAX with and without the suffixes the receiver appends, names of the receiver's resume directory / sidecar / temporary files, names of other items of the same manifest) and output directories in which an earlier transfer left an entry of the wrong kind (file where the resume or root directory goes, directory where a file, sidecar or sidecar temp file goes, damaged sidecar) so that the error paths run, against the real RecvManifestMultiStream (both root modes, resume on/off) over QUIC, legacy RecvManifest/RecvFile and the app's resume-data helpers: nothing outside <jail>/a/out may be created, changed or removed, neither around the output directory nor in or around the process's working directory (where paths built from empty or relative strings land).",
    "note": "Trusted: the snapshot diff (sha256, mtime). Symlink planting and TOCTOU attacks on the output directory are not driven.",
}
