PROP = {
    "level": "exploration",
    "stages": [("hostile", "c07", False, ())],
    "assumptions": [
        "only attacker-chosen strings vary; no symlinks are planted in the output directory",
        "absolute attack paths point into the harness scratch jail",
        "monitor = before/after snapshot of everything around the output directory; create-then-delete within one run is not seen by this monitor",
    ],
}
META = {
    "technique": "runtime monitor: hostile-sender script against the real receivers with a before/after file-system snapshot of a jail around the output directory",
    "text": "Exploration over attacker strings (parent references, absolute paths, separators smuggled into names/ids, NUL, over-long, seeded segment mixes) placed in manifest.root, item.rel_path (files and directories), item.id, FileBegin.rel_path, the legacy file name and the offered root name, against the real RecvManifestMultiStream (both root modes, resume on/off) over QUIC, legacy RecvManifest/RecvFile and the app's resume-data helpers: nothing outside <jail>/a/out may be created, changed or removed.",
    "note": "Trusted: the snapshot diff (sha256, mtime). Symlink planting and TOCTOU attacks on the output directory are not driven.",
}
