PROP = {
    "level": "exploration",
    "stages": [("auth", "c08", False, ())],
    "assumptions": [
        "covers the enumerated attacker strategies, not cryptographic strength",
        "the ordering clause is observed at the connection boundary of the real acceptExtraConns/dialExtraConns (extra connections) and, for the primary connection, at the boundary of the real run functions (RunSnapshotReceiver/runTransfer, RunSnapshotSender/runICEQUICTransfer) started in child processes against a fake signaling server: what the honest receiver creates in its output directory and its exit code, which streams and bytes the honest sender sends to its peer",
        "primary connection: direct (loopback) candidates only, one connection per transfer, one small file; the TURN listener / relayed candidates, the dumb modes and the race_lost retry of the receiver are not driven; an attacker that wins the primary connection while an honest peer is connecting at the same time (two producers racing) is not scheduled, each producer is attacked alone",
    ],
}
META = {
    "technique": "runtime monitor: scripted attackers (rogue dialer/listener, relay between two TLS sessions, replay, reflection, bit flips) against the real authenticateTransport over loopback QUIC; boundary recording of streams/bytes before authentication on extra connections; the real receiver and sender run functions in child processes with a peer without the join code on every producer of the primary connection",
    "text": "Exploration over attacker strategies: same code must pass both ways; different codes, random proofs, replays from another TLS session, reflection, role swaps, a verbatim relay between two TLS sessions and every single-bit flip / truncation of either 50-byte message must be rejected by the honest end; the real extra-connection accept/dial paths must keep no unauthenticated connection and exchange nothing but the auth stream before authentication; the real receiver (connection it accepts, connection it dials itself) and the real sender (connection it dials) must not serve a primary connection whose peer skips authentication, uses another code or a garbage proof, or sends the payload while authenticating - nothing created in the output directory, no exit 0, no stream besides the auth stream, no control magic - and must serve a same-code peer on each of these paths.",
    "note": "Trusted: TLS exporter of quic-go, crypto/hmac. The signaling server of the primary-connection cases is a fake played by the harness (manifest offer/accept, transfer start, candidates), not thruserv.",
}
