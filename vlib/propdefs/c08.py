PROP = {
    "level": "exploration",
    "stages": [("auth", "c08", False, ())],
    "assumptions": [
        "covers the enumerated attacker strategies, not cryptographic strength",
        "the ordering clause is observed at the connection boundary of the real acceptExtraConns/dialExtraConns (extra connections); the primary connection's call order in runTransfer/runICEQUICTransfer is not driven by this check",
    ],
}
META = {
    "technique": "runtime monitor: scripted attackers (rogue dialer/listener, relay between two TLS sessions, replay, reflection, bit flips) against the real authenticateTransport over loopback QUIC; boundary recording of streams/bytes before authentication on extra connections",
    "text": "Exploration over attacker strategies: same code must pass both ways; different codes, random proofs, replays from another TLS session, reflection, role swaps, a verbatim relay between two TLS sessions and every single-bit flip / truncation of either 50-byte message must be rejected by the honest end; the real extra-connection accept/dial paths must keep no unauthenticated connection and exchange nothing but the auth stream before authentication.",
    "note": "Trusted: TLS exporter of quic-go, crypto/hmac. The primary connection's ordering is checked only for the shared authenticateTransport call, not at the network boundary of the real binaries.",
}
