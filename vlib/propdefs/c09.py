PROP = {
    "level": "exploration",
    "stages": [("dial", "c09", False, ()), ("sessions", "c09e2e", False, ())],
    "binaries": ("./cmd/thru", "./cmd/thruserv"),
    "assumptions": [
        "connection state is read from the server-side connection contexts after a grace period and confirmed with a token written on the returned connection",
        "the accepting side lives inside the application's runTransfer and is observed with the real binaries in network namespaces with 2, 3 and 5 local addresses",
        "schedules inside quic-go are not steered; the hook at ice.dial.succeeded holds later finishers to make the late-winner order deterministic",
    ],
}
META = {
    "technique": "runtime monitor: real ProbeAndDial against a recording QUIC listener (open-connection count + token after a grace period, hook-held completion order) and real-binary sessions in multi-address network namespaces",
    "text": "Exploration over candidate lists (one to all local addresses, duplicates, closed ports, relay-prefixed) and completion orders of the parallel handshakes: after ProbeAndDial returned exactly one server-side connection may stay open and it must be the one the caller got; real `thru host`/`thru join` sessions on hosts with 2-5 local addresses must start the transfer and complete instead of failing authentication on an abandoned connection.",
    "note": "Trusted: quic-go connection contexts as the liveness signal, 0.7-1 s grace on loopback. TURN relays not driven.",
}
