PROP = {
    "level": "exploration",
    "stages": [("main", "c10", False, ())],
    "binaries": ("./cmd/thruserv", "./cmd/thru"),
    "assumptions": [
        "the real thruserv binary with rate limits switched off by flags (--ws-msgs-per-sec 0 --ws-connects-per-min 0 --session-creates-per-min 0 --max-receivers-per-sender 0); WebSocket clients are the harness's own gorilla clients whose readers never stop",
        "no-loss is judged only in stable phases: membership fixed and confirmed (every closed socket's handler exit seen in the server output, all-pairs barrier delivered), at most 100 messages in flight per recipient (the server's per-peer channel holds 256 and drops when full); during membership churn only the safety clauses are judged",
        "peer_not_found is judged against connection intervals measured on one monotonic clock: an error refutes only if the addressee was registered (its peer_list received) before the send started and not closed / replaced until the error arrived",
        "messages are counted, not timed; watchdogs (settle, marker wait) only yield inconclusive",
    ],
}
META = {
    "technique": "runtime monitor: offline history checker over per-client receive logs of the real thruserv (routing, true sender, FIFO, no-dup, no-loss with markers, peer_not_found)",
    "text": "Exploration: rounds of 3-4 sessions and 12-24 concurrent WebSocket clients against the real thruserv: addressed sends (same session, self, unknown id, id of another session), broadcasts, spoofed from / session_id, malformed JSON, envelopes missing required fields, binary frames, interleaved with joins, leaves, reconnects and duplicate peer ids in churn phases. Every payload carries (author connection, per-recipient sequence, global id); an offline oracle checks each received envelope (author in the recipient's session, from = author's id, session_id, to, no duplicate, per-author order, content), each peer_not_found (author only, addressee not connected), and in stable phases no loss (FIFO + later message received => every earlier one is in the log; marker per recipient). Decides the histories produced, not all interleavings.",
    "note": "Trusted: the harness WebSocket client (gorilla), its send log and monotonic timestamps, the server's 'peer disconnected' output lines as handler-exit signal for settling. Not driven: TLS, proxies, message-size and rate limits (C14).",
}
