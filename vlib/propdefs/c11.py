PROP = {
    "level": "exploration",
    # stage names chosen so that the GORACE log prefixes ("race-<stage>") do not prefix each other
    "stages": [("stress", "c11", False, ()), ("race-stress", "c11", True, ())],
    "race_is_violation": True,
    "assumptions": [
        "every hub call is bracketed by call/return timestamps of one monotonic clock; its effect lies inside that interval; verdicts on List/SendTo are given only where the records leave no ambiguity about a connection's liveness (otherwise no verdict)",
        "routability carve-out (DESIGN.md C11): a failed SendTo to a definitely live connection is excused iff a remover of the same session was between its unlink and its return while that connection's Add ran, or CloseSession ran on the session after the Add began; carve-outs are counted separately",
        "liveness is decided as bounded progress: operation counters of a worker inside a hub call frozen for 12 s while a canary goroutine keeps ticking; the wall-clock watchdog alone is inconclusive",
        "goroutine scheduling is not steered beyond seeded yields/sleeps at the four hub hook points; operation scripts are a pure function of (tier, seed)",
    ],
    "timeout": 3400,
}
META = {
    "technique": "runtime monitor: in-process stress of the real peers.Hub in child processes with seeded perturbation at the hub hook points, call/return history oracle (panics, routability, listing, leak snapshots at quiescence, bounded progress), plain and race-detector builds (race reports are violations)",
    "text": "Exploration under perturbation: 8-16 goroutines on 1-3 sessions and 3 shared peer ids (plus one private probe id per goroutine) execute seeded scripts of Add, remove, CloseSession, List, Broadcast, BroadcastExcept and SendTo on the real Hub, with seeded yields/sleeps at hub.broadcast.afterCopy, hub.remove.afterUnlink, hub.remove.beforeGC and hub.close.afterUnlink. Refuted by a recovered panic in any operation, death of the stress process with a hub.go frame, a race report, frozen operation counters, a leaked or inconsistent sessions/byPeerID entry in a map snapshot at quiescence, List naming a connection that could not have been live, SendTo failing for a definitely live connection outside the carve-out. Decides the interleavings produced (counted per operation pair and hook window in the evidence), not all schedules.",
    "note": "Trusted: the monotonic clock bracketing, the harness bookkeeping of connection lifetimes, the export shim copying the maps under the hub's lock, the Go race detector. Not driven: the WebSocket handlers of cmd/thruserv themselves (the hub is exercised with the handler's call pattern, in-process).",
}
