PROP = {
    "level": "exploration",
    "stages": [("main", "c12", False, ()), ("race", "c12", True, ())],
    # the stated bound (every membership-consistent history of length <= 7 over J/A/L/K/F/S/T,
    # receivers {a,b,c} up to renaming, max-receivers 1..3) is enumerated completely by the main
    # stage of both tiers (thorough goes to length 8 for max 1..3 and 9 for max 1)
    "exhaustive": True,
    "assumptions": [
        "the SnapshotSender is built by an export shim with the fields the repository's own newTestSender sets (maxRecv, receiverTTL, the three maps, now, exitFn, closeConn) plus logger, a real wsclient.Conn, ids, the progress map and the transferFn seam; events enter through handleEnvelope (as from the ReadLoop callback, one at a time) and cleanup()",
        "events are delivered one at a time and the state is judged only at quiescence (sender.runTransfer.exit hits = transfers told to return, marker round trip through the same FIFO connection, stub starts >= TransferStart messages); overlapping deliveries (two transfers ending at the same instant) are not driven",
        "membership-consistent histories: join only for a non-member, accept/leave only for a member; the duplicate-join class (same peer id joins again without leaving, which thruserv's last-write-wins hub permits) is sampled separately; accept from a non-member is not driven",
        "receivers are interchangeable (peer ids are opaque map keys), so histories are enumerated up to renaming; three receivers, max-receivers 1..3",
        "reference model: accept enqueues unless queued/transferring (after an ended transfer both 'enqueue again' and 'ignore' are accepted); ok -> DONE, error -> FAILED, left -> FAILED or DONE; idle cleanup may forget joined/ended receivers but not queued or transferring ones; statuses of receivers that merely joined are not judged",
        "fake clock: +1 s per event, +6 min per cleanup tick, TTL 10 min; the stub transfer returns only when told (also after its context was cancelled, with ctx.Err() or nil)",
    ],
}
META = {
    "technique": "runtime monitor: real SnapshotSender driven event by event (stub transfer function, fake clock, real wsclient.Conn to a recording WebSocket endpoint), quiescence by hook counts, reference-model oracle after every prefix; exhaustive bounded histories + random walks; failing histories shrunk and keyed by their minimal shape; race-detector build as second regime",
    "text": "Exploration with an exhaustively enumerated bounded part: every membership-consistent history of join / accept (repeatable) / leave / transfer-ok / transfer-fail / late return of a cancelled transfer / idle-cleanup tick over three receivers up to renaming, of length <= 7 (quick) or <= 8 and <= 9 for max 1 (thorough), for max-receivers 1..3, plus seeded random histories of length 9 / 12 (incl. a duplicate-join class), each on a fresh real SnapshotSender. After every event the queue, active slots, statuses, the stub transfers running with a live context and the TransferStart/TransferQueued messages seen at the WebSocket boundary are compared with a reference model: never more live transfers than max, no queued receiver while a slot is free, queue = acceptance order, one state per receiver, a leaver dequeued / cancelled / slot released, no start with a cancelled context, exactly one TransferStart per start. Decides the histories produced (sequential deliveries, quiescent states), not concurrent deliveries.",
    "note": "Trusted: the reference model and quiescence rule in overlay/cmd/verifharness/c12.go, the export shim constructor (mirrors newTestSender), gorilla/websocket on loopback. A history is cut at its first refuting prefix (extensions of a refuted prefix are not explored). Not driven: the real transfer function (ICE/QUIC), overlapping event deliveries, more than three receivers.",
}
