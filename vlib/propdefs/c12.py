PROP = {
    "level": "exploration",
    "stages": [("main", "c12", False, ())],
    "assumptions": ["draft"],
}
META = {"technique": "draft", "text": "draft", "note": "draft"}
