PROP = {
    "level": "exploration",
    "stages": [("main", "c12", False, ()), ("race", "c12", True, ())],
    "assumptions": ["draft"],
}
META = {"technique": "draft", "text": "draft", "note": "draft"}
