PROP = {
    "level": "exploration",
    "stages": [("main", "c13", False, ())],
    "assumptions": [
        "the bytes the sender will read for an item are the bytes readable through open(2) (links followed) at the path the host's resolver returns for item.RelPath; for manifest.Scan at root joined with RelPath (parent directory for a single-file root), as SendManifestMultiStream does",
        "Linux file system semantics; the check runs as root so no entry is unreadable for permission reasons; Windows separators are not driven",
        "a path list that ScanPaths rejects with an error (a given path does not exist) yields no manifest and is not judged",
        "every generated plain entry gets a distinct whole-second mtime; the mtime stored in a manifest item is used to tell which entry the item was taken from",
    ],
}
META = {
    "technique": "runtime monitor: real manifest.ScanPaths/Scan and the host's real buildPathResolver on generated on-disk trees and path lists, judged against an independent ReadDir+Lstat walk ((device,inode) multisets, readable bytes via non-blocking open, rescan equality)",
    "text": "Exploration: hundreds (quick) to ten thousand (thorough) seeded cases, each a directory tree materialised on disk plus a path list carrying one feature class (duplicate base names, ordinal-looking names, same path twice, path and subdirectory, '.', relative paths, trailing slashes, dot segments, unicode, hard links, empty directories, single files, FIFO, socket, character device, symlinks to a file / directory / nothing / a loop inside the tree or as the given path). The real scan and the real resolver run on each; the oracle demands distinct, sorted, clean slash-separated rel paths, every regular file and directory beneath each given path listed exactly once for that path ((device,inode) multiset equality with an independent walk), every item resolving to the entry it was taken from, size equal to the bytes readable at the resolved path, consistent counts/totals and a deep-equal second scan. Decides the cases produced, not all trees and path lists.",
    "note": "Trusted: the harness walk (os.ReadDir + os.Lstat), inode identity, open(2)/read(2) byte counts with a 4 MiB cap, lexical path cleaning of the given paths. Known classes are sampled (a few witnesses per run); classes in which the property is expected to hold make up the bulk.",
}
