PROP = {
    "level": "exploration",
    "stages": [("main", "c14", False, ())],
    "binaries": ("./cmd/thruserv",),
    "assumptions": [
        "store histories: call/return times from one monotonic clock; porcupine decides linearizability against a sequential model (live set of {id, code}); a checker timeout is inconclusive",
        "expiry and host-disconnect are judged with brackets only (completed before create-call + lifetime => must be admitted; started after create-return + lifetime / after the observed host-left point => must be refused); anything in between has no verdict",
        "a socket counts as open when it completed the upgrade and answered a ping after the burst had completed and a settle period had passed; refusals are attributed to a limit by the server's error text",
        "thruserv is the real binary on a loopback port, harness and server share the machine's monotonic clock; TURN credential issuing is not configured",
    ],
}
META = {
    "technique": "runtime monitor: porcupine linearizability check of concurrent session.Store histories (join codes forced into a 16-value space via the verifhook override), bracket oracle for expiry, and limit / lifetime oracles over HTTP+WebSocket bursts against the real thruserv binary",
    "text": "Exploration: hundreds to thousands of short concurrent Create/GetByJoinCode/Delete/Count histories against session.Store with forced join-code collisions, each decided by porcupine plus a direct duplicate-live-code check; TTL brackets in-process; and fresh real thruserv processes per round under small limits, further seeded limit vectors and each limit at 0, hit with sequential fills and start-barrier bursts of 16-64 session creations / joins, oversize and rapid frames, joins after the host left (graceful and TCP reset) and around the expiry instant. Decides the executions produced, not all schedules.",
    "note": "Trusted: porcupine v1.3.0, the sequential model in c14.go, gorilla/websocket as client, the server's error strings for attributing a refusal to a limit, loopback timing for the 150 ms settle before the ping round. Not driven: TURN issuing, ws-idle-timeout, multi-IP rate buckets.",
}
