PROP = {
    "level": "exploration",
    "stages": [("fuzz", "c15", False, ())],
    "assumptions": [
        "inputs run in child processes that log each case before executing it, so a crash is attributed to exactly one input",
        "allocation proportionality is measured as the runtime's TotalAlloc delta of the call in an otherwise idle child: bound 4 MiB + 64 x input bytes (endpoints: + 48 MiB for the QUIC connections living in the same process)",
        "'input has ended' for endpoints means the scripted peer closed its streams and the connection",
    ],
    "timeout": 3400,
}
META = {
    "technique": "runtime monitor: generated/mutated protocol input into the real decoders and endpoints in crash-attributing child processes; oracles: process death, recovered panic, watchdog after end of input, TotalAlloc proportionality",
    "text": "Exploration with generated and mutated inputs: every valid control record, the control header, the legacy receivers' headers, the dumb receiver header and sidecar files are truncated at every byte, have every field position overwritten with boundary values, get unknown type bytes, plus seeded random bytes; a recorded valid trace is replayed with the same mutations against the real RecvManifestMultiStream and SendManifestMultiStream over QUIC at every protocol stage. Each input must yield a prompt return without panic, process death or out-of-proportion allocation.",
    "note": "Trusted: Go runtime MemStats, the child-process attribution log. Peers that stay silent without closing are not 'ended input' and are not judged here.",
}
