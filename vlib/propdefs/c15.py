PROP = {
    "level": "exploration",
    "stages": [("fuzz", "c15", False, ())],
    "assumptions": [
        "inputs run in child processes that log each case before executing it, so a crash is attributed to exactly one input",
        "allocation proportionality is measured as the runtime's TotalAlloc delta of the call in an otherwise idle child: bound 4 MiB + 64 x input bytes (endpoints: + 48 MiB for the QUIC connections living in the same process)",
        "'input has ended' for endpoints means the scripted peer closed its streams and the connection; in the stream-end classes it means that the stream the endpoint is reading a record from was ended by the peer (FIN or reset) inside that record while the other streams stay open: a data stream ending inside a chunk payload and the acknowledgement stream ending must make the endpoint return; a data stream ending inside a frame header or between frames is only judged once everything is closed (the receiver may legitimately wait for the next control record)",
        "the application-like option set is a copy of the closures in snapshot_receiver.go / snapshot_sender.go runTransfer (overlay/internal/app/zz_verif_export_c15.go) calling the real progress objects; the receiving CLI's UI renderer and signaling are not part of it",
        "histories of the field-aware classes are reached on logical events (hook recv.chunk.afterMark before the ResumeRequest is written; the receiver's own resume report showing chunk 0 complete), and a run in which they were not reached is inconclusive",
    ],
    "timeout": 3400,
}
META = {
    "technique": "runtime monitor: generated/mutated/field-aware protocol input into the real decoders and into the real endpoints (library, application-like and empty option sets) in crash-attributing child processes; oracles: process death, recovered panic, watchdog with canary after end of input (also: one stream ended inside a record, others open), TotalAlloc proportionality",
    "text": "Exploration with generated and mutated inputs: every valid control record, the control header, the legacy receivers' headers, the dumb receiver header and sidecar files are truncated at every byte, have every field position overwritten with boundary values and every enumeration/flag byte swept, get unknown type bytes, plus seeded random bytes; a recorded valid trace is replayed with the same mutations against the real RecvManifestMultiStream and SendManifestMultiStream over QUIC at every protocol stage, under the library options and under the option set the application passes (all callbacks installed); every peer-chosen enumeration/flag byte (FileBegin.HashAlg, record type, FileDone.OK) and the resume report's counts are set to boundary values (thorough: all 256) in the history in which the endpoint consumes them (fresh file, chunk stored then ResumeRequest, sidecar of an interrupted earlier session); data and acknowledgement streams are ended inside records while the other streams stay open. Each input must yield a prompt return without panic, process death or out-of-proportion allocation.",
    "note": "Trusted: Go runtime MemStats, the child-process attribution log, the verifhook point recv.chunk.afterMark. Peers that stay silent without ending any stream are not 'ended input' and are not judged here. The unused RecvManifestMultiStreamLegacy endpoint is not driven.",
}
