PROP = {
    "level": "exploration",
    "stages": [("main", "c16", False, ())],
    "binaries": ("./cmd/thruserv", "./cmd/thru"),
    "assumptions": [
        "documented configuration = the flags of thruserv --help / README (limits and timeouts at default, a small value that still admits one host + one receiver, and 0), TURN issuing on / off / half-configured, --turn-server spellings turn: turn:// turns: turns:// bare host:port, IPv4/IPv6 literals, ?transport= ?servername=, comma list and repeated flag",
        "the real thruserv binary on a free loopback port per configuration (readiness via /health; start failures are inconclusive); client side = the repository's clienthttp.CreateSession, app.buildWebSocketURL, wsclient.Dial/ReadLoop/Send and ice.parseTurnServer called in-process",
        "small rate limits are respected by the harness (it waits the refill time between the two connects when the configured burst is below 2); timeouts of the client calls (>4 s) and watchdogs are inconclusive, only definitive errors / closed connections refute",
        "the TURN relay itself is never contacted (no TURN server offline): only minting and client-side parsing are compared; server URL spelling is http://127.0.0.1:<port>",
    ],
}
META = {
    "technique": "runtime monitor over a configuration grid: real thruserv per configuration, real client functions, independently computed TURN REST credentials",
    "text": "Exploration: for each documented server flag at default/small/0 (one factor at a time in quick; all two-factor level pairs plus seeded all-factor rows in thorough) and TURN issuing on/off, the real thruserv is started and the real client functions create a session, connect as host and as receiver with the URL the client builds, exchange one envelope each way, and parse the received turn_credentials with ice.parseTurnServer across --turn-server spellings and peer-id character classes; user, HMAC-SHA1 secret, endpoint and TLS flag are compared with an independent computation. Thorough also starts the real `thru host` per single-factor configuration and requires the join code. Decides the configurations run, not all flag combinations.",
    "note": "Trusted: the harness's expectation table for each URL spelling, its HMAC computation (crypto/hmac), loopback networking, /health as readiness signal. Not driven: TURN allocation, https/wss server URLs, client flags other than server URL / max receivers.",
}
