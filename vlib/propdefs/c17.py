PROP = {
    "level": "exploration",
    "stages": [("main", "c17", False, ())],
    # part (b) enumerates its stated bound completely in both tiers (quick: chunks <= 3, workers <= 2;
    # thorough: chunks <= 5, workers <= 3); the harness fails its minimum-observation requirement otherwise
    "exhaustive": True,
    "assumptions": [
        "part (b) is exhaustive only at the granularity of the state's mutex (nextChunkToSend, markChunkDone, trySendEnd and the three stores of applyResumeInfo / the verification goroutine are each one atomic step) and only for the stated bound; the stores are replayed by a shim in the order the real code uses (verifyPending, then verdict and plan in either order)",
        "the force-send index of the plan in part (b) restates the production setting (ResumeVerifyTail 0, hash known); part (a) runs the real applyResumeInfo over the wire with the same inputs",
        "part (a) judges only what the hook order proves: an end-of-file record is compared with the verification only when the report was provably known before the end-of-file decision; a report that arrives after the sender already decided the end of the file is counted, not judged",
        "reports with an unknown hash (timed-out receiver hash) and ResumeVerifyTail > 0 are not driven",
        "loopback QUIC; goroutine scheduling in part (a) is steered only through the hook callbacks (jitter, hold), not controlled",
    ],
}
META = {
    "technique": "runtime monitor: exhaustive re-execution of all method-granularity interleavings of the real sendFileState (bounded), hook-order trace monitor on the real sender against a scripted receiver over loopback QUIC, random operation orders on the real HybridScheduler",
    "text": "Exploration with an exhaustively enumerated bounded core: (b) every interleaving of up to 3 workers' take/finish/poll calls on the real sendFileState with the arrival of the resume report (verifyPending, plan) and of the verification verdict, for every chunk count <= 5 (quick: <= 3 chunks, 2 workers), bitmap, verification point and outcome, explored as a graph of (real state, worker states, monitor state) nodes whose every schedule prefix is re-executed on a fresh real state, and judged by an exactly-once oracle; (a) hundreds to thousands of real SendManifestMultiStream runs over loopback QUIC against a scripted receiver that chooses report time (at once / inside / after the 300 ms grace / never), bitmap, verification chunk and right or wrong hash, with the verdict held and chunk frames delayed through hooks, judged from the total order of the hook events; (c) random Add/Next/Remove orders on the real HybridScheduler. Exhaustive only for (b)'s bound at mutex granularity; everything else decides the executions produced.",
    "note": "Trusted: the verifhook sequence numbers (taken / plan.applied are emitted under the state's mutex), the export shims (method wrappers and the three stores in production order), the scripted receiver. Not covered: instruction-level interleavings inside the mutex-protected methods (they are atomic by construction), ResumeVerifyTail > 0, unknown-hash reports.",
}
