PROP = {
    "level": "exploration",
    "stages": [("codec", "c18", False, ())],
    "assumptions": [
        "the repository's own writers and readers are called through forwarding shims (internal/transfer/zz_verif_export_c18.go); the stream is an in-memory transfer.Stream whose reads never block and may return short counts",
        "values stay within the protocol's field limits (paths accepted by the writer, ids and error texts <= 65535 bytes, bitmaps <= 1 MiB + 1, manifests <= 2000 items); values the writer refuses are counted, not evaluated",
        "nil and empty slices are identified when comparing decoded and sent values",
    ],
}
META = {
    "technique": "runtime monitor: round-trip oracle decode(encode(x)) == x and reader-at-EOF over the real encoders/decoders, field-boundary list + seeded random values + random record sequences",
    "text": "Exploration: every record type (FileBegin, FileEnd, FileDone, FileResumeInfo, ResumeRequest, Credit, CreditBatch, DataStreams, End) and the manifest header is encoded by the repository's writer into an in-memory stream and decoded by readControlMessage/readControlHeader; the decoded value must equal the sent one and the reader must have consumed exactly the written bytes. Values: a fixed list of field boundaries (path 1..1024 bytes in 10 name classes, ids/error texts 0..65535 bytes, bitmaps nil..2^20+1 bytes, credit batches 0..100000 entries, manifests nil..2000 items, zero/max numerics), 40 000 (quick) / 1 500 000 (thorough) seeded random values and 2 000 / 60 000 random sequences of 1-50 records, each in whole-read and short-read mode. Decides the generated values, not all values.",
    "note": "Trusted: the harness comparison (field-wise equality, nil == empty), the in-memory stream. Not covered: JSON headers near the 4 GiB length limit, bitmaps above 1 MiB, pkg/protocol.Envelope (signaling JSON, not one of the quantified records).",
}
