PROP = {
    "level": "exploration",
    "stages": [("geometry", "c19", False, ())],
    "exhaustive": True,
    "assumptions": [
        "exhaustive only for the small domain size 0..300 x chunk size 1..64 (19 264 pairs, every observer on every pair, both tiers); the rest of the domain (up to 10 TiB / 4 GiB-1, count <= 2^32-1) is covered by a boundary list and seeded random pairs",
        "sender = chunkTotal/chunkSizeForIndex through forwarding shims; sidecar = CreateSidecar in a temp dir; receivers = FileResumeInfo.TotalChunks read off the wire from RecvManifestMultiStream / RecvManifestMultiStreamLegacy fed by the repository's own encoders over in-memory pipes (counts <= 2^20); legacy pipeline = sendFileChunksWindowed / receiveFileChunksWindowed on real files (small domain)",
        "the count implied by the tiling (offsets i*cs, lengths in [1,cs], sum = size) is used only as the statement's own consequence, all other comparisons are between observers",
    ],
}
META = {
    "technique": "runtime monitor: tiling + count-agreement oracle over the real helpers, CreateSidecar, both multi-stream receivers (wire observation, in-memory pipes) and the legacy chunk pipeline; exhaustive small domain, boundary list, seeded random pairs",
    "text": "Exploration with an exhaustively enumerated small domain: for every (size 0..300, chunk size 1..64) the sender helpers must tile the file (all indices), CreateSidecar, RecvManifestMultiStream (FileResumeInfo.TotalChunks off the wire, the sidecar it leaves, and delivery of exactly the sender's chunks ending in FileDone OK with an identical file), RecvManifestMultiStreamLegacy and the legacy send/receive pipeline on a real file must all agree with the sender's count. Beyond it: 334 boundary pairs around 2^16, 2^31, 2^32, 4 MiB, 10 TiB and the 32-bit count limit, and 10^5 (quick) / 10^7 (thorough) seeded random pairs (half of them on or next to a multiple of the chunk size) against the helpers, with sidecar and receivers observed where the count is affordable. Decides the pairs evaluated, not the whole domain.",
    "note": "Trusted: the harness arithmetic (uint64 quotient/remainder), in-memory pipes, sparse files on the scratch file system. Not covered: receivers for counts above 2^20, legacy pipeline outside the small domain, chunkSizeForIndex at every index for counts above 65 536 (sampled first/last/random indices).",
}
