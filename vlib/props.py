"""Per-property configuration, loaded from vlib/propdefs/cNN.py.

Each propdef module defines:
  PROP = {"level": ..., "stages": [(stage name, harness command, race build?, ())], "assumptions": [...],
          optional: "binaries": ("./cmd/thru", "./cmd/thruserv"), "race_is_violation": bool, "exhaustive": bool,
                    "thorough_only": (stage names,), "timeout": seconds}
  META = {"technique": ..., "text": ..., "note": ...}
"""
import importlib
import os
import pkgutil

PROPS = {}
META = {}

_dir = os.path.join(os.path.dirname(os.path.abspath(__file__)), "propdefs")
for _m in sorted(pkgutil.iter_modules([_dir]), key=lambda m: m.name):
    _mod = importlib.import_module("vlib.propdefs." + _m.name)
    _pid = _m.name.upper()
    PROPS[_pid] = _mod.PROP
    META[_pid] = _mod.META
