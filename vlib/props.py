"""Per-property configuration: level, stages, assumptions."""

# stage: (name, harness command, race build?, extra build targets)
PROPS = {
    "C01": {
        "level": "exploration",
        "stages": [("lib", "c01", False, ()), ("lib-race", "c01", True, ())],
        "assumptions": [
            "success is read from the return values of SendManifestMultiStream/RecvManifestMultiStream; digests are taken after both returned and the connections were closed",
            "real loopback QUIC and the repository's mock transport; TURN/STUN paths not driven",
        ],
    },
    "C03": {
        "level": "exploration",
        "stages": [("lib", "c03", False, ())],
        "assumptions": [
            "liveness is decided as bounded progress: watchdog exceeded, no stream byte for half the window, and a canary transfer completing afterwards",
            "loopback network without loss",
        ],
    },
}

# Texts for MANIFEST.json (level_claimed.text, level_note, technique).
META = {
    "C01": {
        "technique": "runtime monitor: digest oracle over real transfers (loopback QUIC, multi-conn, mock) with jittered hooks; race-detector build",
        "text": "Exploration: thousands of real SendManifestMultiStream/RecvManifestMultiStream executions over the mock transport and real loopback QUIC (1-4 connections) across tree shapes, chunk sizes, stream counts, root/scan modes and resume, with seeded delays at the chunk hooks to vary worker/arrival interleavings; on every double success the output tree digest must equal the source digest. Decides the executions produced, not all inputs.",
        "note": "Trusted: the harness tree generator/digest (sha256), return values as the success signal, loopback network. Not driven: TURN/STUN paths, Windows paths.",
    },
    "C03": {
        "technique": "runtime monitor: bounded-progress watchdog + canary over fault-free real QUIC transfers on a configuration grid and resume histories",
        "text": "Exploration over a bounded grid (files x chunks-per-file x streams x connections x resume), all legal name classes, special shapes and resume histories (partial, complete, late resume report), plus random cases: every fault-free transfer over real loopback QUIC must return nil on both sides within the watchdog and produce the identical tree. Liveness is decided as bounded progress (watchdog, no byte moved for half the window, canary completes).",
        "note": "Trusted: loopback QUIC without loss, the watchdog/canary rule; goroutine scheduling inside quic-go is not steered, diversity comes from repetition, jitter hooks and multi-connection runs.",
    },
}
