#!/usr/bin/env python3
"""Validate MANIFEST.json and evidence files against the schemas (needs jsonschema: python3-vt)."""
import glob, json, sys
import jsonschema
jsonschema.validate(json.load(open('/verif/MANIFEST.json')), json.load(open('/root/.vp/MANIFEST.schema.json')))
print('manifest valid')
sch = json.load(open('/root/.vp/EVIDENCE.schema.json'))
for f in sorted(glob.glob('/verif/evidence/*.json')):
    jsonschema.validate(json.load(open(f)), sch)
    print(f, 'valid')
